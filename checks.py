"""Per-property check definitions (driver side).  See DESIGN.md section 4."""
import json
import os
import time

import vplib
from vplib import (LibBuild, Merged, Verdict, build_harness, run_harness, run_sharded,
                   run_parallel, scratch, stage_repo, EngineError, NCPU, WRAP_ALLOC, WRAP_PIN, VERIF)

COMMON_SRC = ["common.c", "pin.c", "families.c"]

BUILDS = {
    "shipped": dict(),
    "w32": dict(defs=["-DSKINNY_C_VERIF_64BIT=0"]),
    "ua0": dict(defs=["-DSKINNY_C_VERIF_UNALIGNED=0"]),
    "w32ua0": dict(defs=["-DSKINNY_C_VERIF_64BIT=0", "-DSKINNY_C_VERIF_UNALIGNED=0"]),
    "nosimd": dict(defs=["-DSKINNY_C_VERIF_VEC128_MATH=0", "-DSKINNY_C_VERIF_VEC256_MATH=0"], maxbe=0),
    "no256": dict(defs=["-DSKINNY_C_VERIF_VEC256_MATH=0"], maxbe=1),
    "be0": dict(defs=["-DSKINNY_C_VERIF_LITTLE_ENDIAN=0", "-DSKINNY_C_VERIF_VEC128_MATH=0",
                      "-DSKINNY_C_VERIF_VEC256_MATH=0"], maxbe=0),
    "clang": dict(cc="clang"),
    "O0": dict(common="-O0 -Wall -Wextra"),
}


def mkbuild(name, **over):
    kw = dict(BUILDS.get(name, {}))
    kw.update(over)
    return LibBuild(name=name, **kw)


def new_stage():
    st = scratch()
    stage_repo(os.path.join(st, "tree"))
    return st


def make_replayer(binary, base_args, env=None, prefix=()):
    """Returns f(violation) that re-runs the single case stand-alone and confirms it."""
    ctr = [0]

    def rp(v):
        if not v.get("case"):
            return True   # nothing to replay (structural finding); trusted as reported
        ctr[0] += 1
        out = binary + ".replay%d.json" % ctr[0]
        res = run_harness(binary, list(base_args) + ["--replay", v["case"]], out, env=env, prefix=prefix)
        return any(x["sig"] == v["sig"] for x in res.get("violations", []))
    return rp


# ------------------------------------------------------------------ replay of a stored file

def replay(pid, path):
    with open(path) as f:
        body = json.load(f)
    spec = body.get("replay") or {}
    st = new_stage()
    lib = mkbuild(spec.get("build", "shipped")).build(st)
    binary = build_harness(st, lib, "replay", spec["sources"], wraps=spec.get("wraps", []),
                           cc=spec.get("hcc", "gcc"), cflags=spec.get("hcflags", "-O1 -g -Wall -Wextra -Wno-unused-parameter"))
    res = run_harness(binary, spec["args"] + ["--maxbe", str(lib.maxbe), "--replay", body["case"]],
                      os.path.join(st, "replay.json"))
    hit = [x for x in res.get("violations", []) if x["sig"] == body["signature"]]
    if hit:
        print("VIOLATION property=%s replay=%s" % (pid, path))
        print("  reproduced: %s" % hit[0]["detail"][:600])
        return vplib.EXIT_VIOLATION
    print("%s: replay %s did not reproduce on this tree" % (pid, path))
    return vplib.EXIT_HELD


def run_dp(st, lib, sources, sub, tier, seed, merged, verdict, wraps=WRAP_PIN, nshards=NCPU, extra_args=()):
    binary = build_harness(st, lib, sub, COMMON_SRC + sources, wraps=wraps)
    args = ["--sub", sub, "--tier", tier, "--seed", str(seed), "--label", lib.name,
            "--maxbe", str(lib.maxbe)] + list(extra_args)
    spec = {"sources": COMMON_SRC + sources, "wraps": list(wraps), "build": lib.name,
            "args": ["--sub", sub, "--tier", tier, "--seed", str(seed), "--label", lib.name] + list(extra_args)}
    m = Merged()
    for res in run_sharded(binary, args, st, "%s-%s" % (sub, lib.name), nshards=nshards):
        m.add(res, spec)
        merged.add(res, spec)
    verdict.handle(m, make_replayer(binary, args))
    return m


# ------------------------------------------------------------------ C01

def check_c01(tier, seed):
    v = Verdict("C01", tier, seed)
    st = new_stage()
    merged = Merged()
    builds = ["shipped", "w32"]
    libs = run_parallel([lambda n=n: mkbuild(n).build(st, jobs=8) for n in builds], workers=2)
    per = {}
    for lib in libs:
        m = run_dp(st, lib, ["h_dp.c"], "c01", tier, seed, merged, v)
        per[lib.name] = m.evaluations
    cov = {"evaluations": merged.evaluations, "distinct_nontrivial": merged.distinct,
           "rule": "BG/BYTE/PAIR/BIT%s families over key||block for the six SKINNY variants x {encrypt, decrypt}, "
                   "each on the 64-bit-word and 32-bit-word builds; a case is non-trivial when the output differs "
                   "from the input block; distinct = distinct (build, variant, direction, key, block, output) digests"
                   % ("/ADJ" if tier == "thorough" else ""),
           "samples": merged.samples, "evaluations_per_build": per, "builds": [l.describe() for l in libs],
           "notes": merged.notes}
    return v.finish("exploration", cov,
                    ["reference model ref/ref_skinny.c is the specification (bound to the six published vectors and the published S-box tables at start-up)",
                     "inputs outside the structured families are not covered"])


def check_c02(tier, seed):
    v = Verdict("C02", tier, seed)
    st = new_stage()
    merged = Merged()
    builds = ["shipped", "w32"]
    libs = run_parallel([lambda n=n: mkbuild(n).build(st, jobs=8) for n in builds], workers=2)
    per = {}
    for lib in libs:
        m = run_dp(st, lib, ["h_dp.c"], "c02", tier, seed, merged, v)
        per[lib.name] = m.evaluations
    cov = {"evaluations": merged.evaluations, "distinct_nontrivial": merged.distinct,
           "rule": "families over key||tweak||block x rounds 5..8 x {encrypt, decrypt schedule} x {stored tweak, per-call tweak}, "
                   "plus fresh-schedule and null-tweak cases over key||block; non-trivial when output != input; "
                   "distinct = distinct (build, rounds, mode, path, input, output) digests",
           "samples": merged.samples, "evaluations_per_build": per, "builds": [l.describe() for l in libs]}
    return v.finish("exploration", cov,
                    ["reference model ref/ref_mantis.c is the specification (bound to the four published vectors, both directions)",
                     "inputs outside the structured families are not covered"])


MC_SRC = ["common.c", "pin.c", "families.c", "alloc.c", "obj.c", "mc.c"]
MC_WRAPS = WRAP_ALLOC + WRAP_PIN


def run_mc(st, lib, source, sub, tier, seed, merged, verdict, nshards=NCPU, extra_args=()):
    return run_dp(st, lib, [s for s in MC_SRC if s not in COMMON_SRC] + [source], sub, tier, seed, merged, verdict,
                  wraps=MC_WRAPS, nshards=nshards, extra_args=extra_args)


def mc_cov(merged, rule, extra=None):
    cov = {"states": merged.states, "transitions": merged.transitions,
           "traces_validated_against_impl": merged.traces,
           "evaluations": merged.transitions, "distinct_nontrivial": merged.states,
           "rule": rule, "samples": merged.samples, "notes": merged.notes}
    if extra:
        cov.update(extra)
    return cov


def check_c05(tier, seed):
    v = Verdict("C05", tier, seed)
    st = new_stage()
    merged = Merged()
    lib = mkbuild("shipped").build(st)
    run_mc(st, lib, "h_ctr.c", "c05", tier, seed, merged, v, nshards=26)
    closed = all(val == 0 for k, val in merged.notes.items() if k.startswith("kinds_cut_by_depth_cap"))
    cov = mc_cov(merged,
                 "BFS over CTR call histories {init, set_key|set_tweaked_key, set_tweak, set_counter, encrypt(len), second set_counter} "
                 "on real objects of every available back end in lock step; states merged by context byte image + model state; "
                 "every transition's output compared with in xor E(c+i) from the reference model; states = distinct canonical states, "
                 "transitions = operations executed with oracles on (each after a full replay of its history on fresh objects)",
                 {"builds": [lib.describe()]})
    return v.finish("model_checking", cov,
                    ["reference block ciphers ref/*.c; keys/tweaks/counters outside the alphabets are not covered",
                     "stream bound 2*batch+B+1 bytes per segment (batch periodicity argument in DESIGN.md 4/C05)"],
                    exhaustive=closed)


def check_c06(tier, seed):
    v = Verdict("C06", tier, seed)
    st = new_stage()
    merged = Merged()
    lib = mkbuild("shipped").build(st)
    run_mc(st, lib, "h_ctr.c", "c06", tier, seed, merged, v, nshards=26)
    closed = all(val == 0 for k, val in merged.notes.items() if k.startswith("kinds_cut_by_depth_cap"))
    cov = mc_cov(merged,
                 "BFS over CTR call histories on one object per available back end in lock step; the C05 alphabet widened with "
                 "key / tweaked-key / tweak changes in the middle of a stream without a counter reset, data calls before any key, "
                 "tweak changes on a plain key schedule, calls after cleanup and the invalid-call menu; oracle: every return value "
                 "and every output byte equal across back ends; states = distinct tuples of per-back-end context images",
                 {"builds": [lib.describe()]})
    return v.finish("model_checking", cov,
                    ["back ends the host cannot execute (NEON) are not covered", "parallel-ECB part of the property: see the C07 harness run under this id (added below when built)"],
                    exhaustive=closed)


def check_c14(tier, seed):
    v = Verdict("C14", tier, seed)
    st = new_stage()
    merged = Merged()
    lib = mkbuild("shipped").build(st)
    run_mc(st, lib, "h_ctr.c", "c14", tier, seed, merged, v, nshards=26)
    closed = all(val == 0 for k, val in merged.notes.items() if k.startswith("kinds_cut_by_depth_cap"))
    cov = mc_cov(merged,
                 "BFS over valid CTR histories (zeroed handle, initialised, keyed, counter set, mid-stream, cleaned up) with every class of invalid "
                 "call applied in every state; oracle: invalid call returns 0, handle+context byte image identical before/after, allocator slack untouched, "
                 "no crash; valid calls return 1 and later output still matches the stream model",
                 {"builds": [lib.describe()]})
    return v.finish("model_checking", cov, ["void functions on a null object are demanded only where documented"], exhaustive=closed)


REGISTRY = {
    "C01": check_c01,
    "C02": check_c02,
    "C05": check_c05,
    "C06": check_c06,
    "C14": check_c14,
}
