"""Per-property check definitions (driver side).  See DESIGN.md section 4."""
import json
import os
import re
import time

import vplib
from vplib import (LibBuild, Merged, Verdict, build_harness, run_harness, run_sharded,
                   run_parallel, scratch, stage_repo, EngineError, NCPU, WRAP_ALLOC, WRAP_PIN, VERIF)

COMMON_SRC = ["common.c", "pin.c", "families.c", "prelude.c"]

BUILDS = {
    "shipped": dict(),
    "w32": dict(defs=["-DSKINNY_C_VERIF_64BIT=0"]),
    "ua0": dict(defs=["-DSKINNY_C_VERIF_UNALIGNED=0"]),
    "w32ua0": dict(defs=["-DSKINNY_C_VERIF_64BIT=0", "-DSKINNY_C_VERIF_UNALIGNED=0"]),
    "nosimd": dict(defs=["-DSKINNY_C_VERIF_VEC128_MATH=0", "-DSKINNY_C_VERIF_VEC256_MATH=0"], maxbe=0),
    "no256": dict(defs=["-DSKINNY_C_VERIF_VEC256_MATH=0"], maxbe=1),
    "be0": dict(defs=["-DSKINNY_C_VERIF_LITTLE_ENDIAN=0", "-DSKINNY_C_VERIF_VEC128_MATH=0",
                      "-DSKINNY_C_VERIF_VEC256_MATH=0"], maxbe=0),
    "clang": dict(cc="clang"),
    "O0": dict(common="-O0 -Wall -Wextra"),
}


def mkbuild(name, **over):
    kw = dict(BUILDS.get(name, {}))
    kw.update(over)
    return LibBuild(name=name, **kw)


def new_stage():
    st = scratch()
    stage_repo(os.path.join(st, "tree"))
    return st


def make_replayer(binary, base_args, env=None, prefix=()):
    """Returns f(violation) that re-runs the single case stand-alone and confirms it."""
    ctr = [0]

    def rp(v):
        if not v.get("case"):
            return True   # nothing to replay (structural finding); trusted as reported
        ctr[0] += 1
        out = binary + ".replay%d.json" % ctr[0]
        res = run_harness(binary, list(base_args) + ["--prelude", str(v.get("prelude", 0)), "--replay", v["case"]], out, env=env, prefix=prefix)
        return any(x["sig"] == v["sig"] for x in res.get("violations", []))
    return rp


# ------------------------------------------------------------------ replay of a stored file

def replay(pid, path):
    """Re-executes a stored violation.  Replays that name a single harness case rebuild
    that harness and run just the case; others (digest comparisons, tool invocations,
    special builds) re-run the property's check and look for the same signature."""
    with open(path) as f:
        body = json.load(f)
    spec = body.get("replay") or {}
    if not spec or "special" in spec or not body.get("case") or "sources" not in spec:
        import io, contextlib
        buf = io.StringIO()
        with contextlib.redirect_stdout(buf):
            rc = REGISTRY[pid](body.get("tier", "quick"), int(body.get("seed", 1)))
        out = buf.getvalue()
        if rc == vplib.EXIT_VIOLATION and body["signature"] in out:
            print("VIOLATION property=%s replay=%s" % (pid, path))
            print("  reproduced by re-running the check: signature %s" % body["signature"])
            return vplib.EXIT_VIOLATION
        print("%s: replay %s did not reproduce on this tree (check exit %d)" % (pid, path, rc))
        return vplib.EXIT_HELD if rc != vplib.EXIT_ENGINE else vplib.EXIT_ENGINE
    st = new_stage()
    lib = mkbuild(spec.get("build", "shipped")).build(st)
    binary = build_harness(st, lib, "replay", spec["sources"], wraps=spec.get("wraps", []),
                           cc=spec.get("hcc", "gcc"), cflags=spec.get("hcflags", "-O1 -g -Wall -Wextra -Wno-unused-parameter"))
    res = run_harness(binary, spec["args"] + ["--maxbe", str(lib.maxbe), "--prelude", str(body.get("prelude", 0)), "--replay", body["case"]],
                      os.path.join(st, "replay.json"))
    hit = [x for x in res.get("violations", []) if x["sig"] == body["signature"]]
    if hit:
        print("VIOLATION property=%s replay=%s" % (pid, path))
        print("  reproduced: %s" % hit[0]["detail"][:600])
        return vplib.EXIT_VIOLATION
    print("%s: replay %s did not reproduce on this tree" % (pid, path))
    return vplib.EXIT_HELD


def run_dp(st, lib, sources, sub, tier, seed, merged, verdict, wraps=WRAP_PIN, nshards=NCPU, extra_args=()):
    binary = build_harness(st, lib, sub, COMMON_SRC + sources, wraps=wraps)
    args = ["--sub", sub, "--tier", tier, "--seed", str(seed), "--label", lib.name,
            "--maxbe", str(lib.maxbe)] + list(extra_args)
    spec = {"sources": COMMON_SRC + sources, "wraps": list(wraps), "build": lib.name,
            "args": ["--sub", sub, "--tier", tier, "--seed", str(seed), "--label", lib.name] + list(extra_args)}
    m = Merged()
    for res in run_sharded(binary, args, st, "%s-%s" % (sub, lib.name), nshards=nshards):
        m.add(res, spec)
        merged.add(res, spec)
    verdict.handle(m, make_replayer(binary, args))
    return m



def run_huge(st, lib, sub, tier, seed, merged, verdict):
    """thorough tier: one request of more than 2^32 bytes per bulk entry point (harness/h_huge.c), one process per cipher"""
    srcs = ["common.c", "pin.c", "families.c", "alloc.c", "obj.c", "h_huge.c"]
    binary = build_harness(st, lib, "huge-" + sub, srcs, wraps=MC_WRAPS)
    args = ["--sub", sub, "--tier", tier, "--seed", str(seed), "--label", lib.name, "--maxbe", str(lib.maxbe)]
    spec = {"sources": srcs, "special": "huge", "build": lib.name, "args": args}
    m = Merged()
    for res in run_sharded(binary, args, st, "huge-%s-%s" % (sub, lib.name), nshards=3, timeout=7200):
        m.add(res, spec); merged.add(res, spec)
    verdict.handle(m, None)
    return m


# ------------------------------------------------------------------ C01

def check_c01(tier, seed):
    v = Verdict("C01", tier, seed)
    st = new_stage()
    merged = Merged()
    builds = ["shipped", "w32", "be0", "ua0", "clang"]
    libs = run_parallel([lambda n=n: mkbuild(n).build(st, jobs=4) for n in builds], workers=5)
    per = {}
    for lib in libs:
        m = run_dp(st, lib, ["h_dp.c"], "c01", tier, seed, merged, v)
        per[lib.name] = m.evaluations
    cov = {"evaluations": merged.evaluations, "distinct_nontrivial": merged.distinct,
           "rule": "BG/BYTE/PAIR/BIT%s families over key||block for the six SKINNY variants x {encrypt, decrypt}, "
                   "each on the 64-bit-word, 32-bit-word and byte-order-neutral builds (the key in a buffer of its own followed by a fixed non-zero pattern); a case is non-trivial when the output differs "
                   "from the input block; distinct = distinct (build, variant, direction, key, block, output) digests"
                   % ("/ADJ" if tier == "thorough" else ""),
           "samples": merged.samples, "evaluations_per_build": per, "builds": [l.describe() for l in libs],
           "notes": merged.notes}
    return v.finish("exploration", cov,
                    ["reference model ref/ref_skinny.c is the specification (bound to the six published vectors and the published S-box tables at start-up)",
                     "inputs outside the structured families are not covered"])


def check_c02(tier, seed):
    v = Verdict("C02", tier, seed)
    st = new_stage()
    merged = Merged()
    builds = ["shipped", "w32", "be0", "ua0", "clang"]
    libs = run_parallel([lambda n=n: mkbuild(n).build(st, jobs=4) for n in builds], workers=5)
    per = {}
    for lib in libs:
        m = run_dp(st, lib, ["h_dp.c"], "c02", tier, seed, merged, v)
        per[lib.name] = m.evaluations
    cov = {"evaluations": merged.evaluations, "distinct_nontrivial": merged.distinct,
           "rule": "families over key||tweak||block x rounds 5..8 x {encrypt, decrypt schedule} x {stored tweak, per-call tweak}, "
                   "plus fresh-schedule and null-tweak cases over key||block; non-trivial when output != input; "
                   "distinct = distinct (build, rounds, mode, path, input, output) digests",
           "samples": merged.samples, "evaluations_per_build": per, "builds": [l.describe() for l in libs]}
    return v.finish("exploration", cov,
                    ["reference model ref/ref_mantis.c is the specification (bound to the four published vectors, both directions)",
                     "inputs outside the structured families are not covered"])


MC_SRC = ["common.c", "pin.c", "families.c", "prelude.c", "alloc.c", "obj.c", "mc.c"]
MC_WRAPS = WRAP_ALLOC + WRAP_PIN


def run_mc(st, lib, source, sub, tier, seed, merged, verdict, nshards=NCPU, extra_args=()):
    return run_dp(st, lib, [s for s in MC_SRC if s not in COMMON_SRC] + [source], sub, tier, seed, merged, verdict,
                  wraps=MC_WRAPS, nshards=nshards, extra_args=extra_args)


def mc_cov(merged, rule, extra=None):
    cov = {"states": merged.states, "transitions": merged.transitions,
           "traces_validated_against_impl": merged.traces,
           "evaluations": merged.transitions, "distinct_nontrivial": merged.states,
           "rule": rule, "samples": merged.samples, "notes": merged.notes}
    if extra:
        cov.update(extra)
    return cov


def check_c03(tier, seed):
    v = Verdict("C03", tier, seed)
    st = new_stage()
    merged = Merged()
    libs = run_parallel([lambda n=n: mkbuild(n).build(st, jobs=5) for n in ("shipped", "w32", "be0", "ua0", "clang")], workers=5)
    lib = libs[0]
    m1 = run_dp(st, lib, ["h_dp.c"], "c03", tier, seed, merged, v)
    m2 = run_mc(st, lib, "h_par.c", "c03p", tier, seed, merged, v, nshards=NCPU)
    m3 = run_mc(st, lib, "h_sched.c", "c03s", tier, seed, merged, v, nshards=3)
    for l in libs[1:]:   # the other word-size / byte-order code paths of the same functions
        run_dp(st, l, ["h_dp.c"], "c03", tier, seed, merged, v, nshards=8)
        run_mc(st, l, "h_par.c", "c03p", tier, seed, merged, v, nshards=8)
        mx = run_mc(st, l, "h_sched.c", "c03s", tier, seed, merged, v, nshards=3)
        m3.states += mx.states; m3.transitions += mx.transitions
    closed = all(val == 0 for k, val in merged.notes.items() if k.startswith("kinds_cut_by_depth_cap"))
    cov = mc_cov(merged,
                 "(ii) closure of the Mantis schedule under {set_key(2 keys x rounds 5..8 x 2 modes), set_tweak(Z,F,R1,R2,NULL), swap_modes, invalid tweak sizes} and of the "
                 "Mantis parallel object under {set_key, swap_modes} on each back end: every reachable state x every operation executed; oracle: schedule image == fresh "
                 "set_key in the current mode + set_tweak(last), behaviour == specification in the current mode over a block family. "
                 "(i) D(E(x)) = x and E(D(y)) = y over the BG/BYTE/PAIR/BIT families through the single-block functions of all six SKINNY variants and Mantis-5..8 "
                 "(stored and per-call tweak), and through the parallel functions on every back end for block counts {1,P-1,P,P+1,2P+1} x 4 data families",
                 {"builds": [l.describe() for l in libs], "closure_states": m3.states, "closure_transitions": m3.transitions,
                  "roundtrip_evaluations_single_block": m1.evaluations, "roundtrip_evaluations_parallel": m2.evaluations,
                  "evaluations": merged.evaluations + merged.transitions, "distinct_nontrivial": merged.distinct})
    return v.finish("model_checking", cov, ["key/tweak values outside the alphabets are not covered"], exhaustive=closed)


def check_c04(tier, seed):
    v = Verdict("C04", tier, seed)
    st = new_stage()
    merged = Merged()
    lib, libw, libb = run_parallel([lambda n=n: mkbuild(n).build(st, jobs=5) for n in ("shipped", "w32", "be0")], workers=3)
    mc = run_mc(st, lib, "h_sched.c", "c04", tier, seed, merged, v, nshards=7)
    d1 = run_dp(st, lib, ["h_dp.c"], "c04", tier, seed, merged, v)
    d2 = run_dp(st, libw, ["h_dp.c"], "c04", tier, seed, merged, v)
    d3 = run_dp(st, libb, ["h_dp.c"], "c04", tier, seed, merged, v, nshards=8)     # byte-order-neutral arms of the tweak code
    others = run_parallel([lambda n=n: mkbuild(n).build(st, jobs=8) for n in ("ua0", "clang")], workers=2)
    for lo in others:   # no unaligned access / the other compiler: the families and the quick closure
        dx = run_dp(st, lo, ["h_dp.c"], "c04", tier, seed, merged, v, nshards=8); d3.evaluations += dx.evaluations
        mx = run_mc(st, lo, "h_sched.c", "c04", "quick", seed, merged, v, nshards=7); mc.evaluations += mx.evaluations
    mcb = run_mc(st, libb, "h_sched.c", "c04", "quick", seed, merged, v, nshards=4)  # the (non-CTR) closure on that build, quick alphabet
    d2.evaluations += d3.evaluations; mc.evaluations += mcb.evaluations
    closed = all(val == 0 for k, val in merged.notes.items() if k.startswith("kinds_cut_by_depth_cap"))
    cov = mc_cov(merged,
                 "closure of the tweakable SKINNY-128 and SKINNY-64 schedules (directly and inside CTR objects of every back end) under {set_tweaked_key(2 keys x 2 sizes), "
                 "set_tweak over TWEAKS(B) = Z,F,R1,R2, R1 at every length 1..B-1, NULL at lengths 1 and B (thorough: every byte value at every position), invalid sizes}; "
                 "every reachable state x every alphabet element executed; oracle on every transition: defined schedule image == fresh set_tweaked_key + one set_tweak(last), "
                 "round count as specified, encrypt/decrypt of a block family == specification cipher with TK1 = zero-padded last tweak and the tweak-domain constant",
                 {"builds": [lib.describe(), libw.describe(), libb.describe()] + [b.describe() for b in others], "oracle_block_evaluations": mc.evaluations,
                  "fresh_schedule_family_evaluations": d1.evaluations + d2.evaluations,
                  "fresh_schedule_rule": "BG/BYTE/PAIR/BIT families over tweak||key||block for the four tweakable variants x {encrypt, decrypt} x {set_tweak, fresh schedule} against the specification model, on the 64-bit-word, 32-bit-word and byte-order-neutral builds (the closure also runs on the last one with the quick alphabet)",
                  "evaluations": merged.evaluations + merged.transitions, "distinct_nontrivial": merged.distinct})
    return v.finish("model_checking", cov, ["reference ref/ref_skinny.c (tweak-domain constant cross-checked against the Arduino port by C19)",
                                            "tweaks outside the alphabet are not covered"], exhaustive=closed)


def check_c05(tier, seed):
    v = Verdict("C05", tier, seed)
    st = new_stage()
    merged = Merged()
    # the platform switches select different code in the CTR back ends (word size: vector S-box code; unaligned access:
    # the byte-wise load / write-back arms; byte order: the scalar arms), so the same exploration runs in each build
    names = ["shipped", "w32", "ua0", "be0", "clang"] + (["w32ua0"] if tier == "thorough" else [])
    libs = run_parallel([lambda n=n: mkbuild(n).build(st, jobs=4) for n in names], workers=5)
    lib = libs[0]
    for lb in libs:
        run_mc(st, lb, "h_ctr.c", "c05", tier, seed, merged, v, nshards=32)
    if tier == "thorough":
        run_huge(st, lib, "ctr", tier, seed, merged, v)     # encrypt(21) then one request of more than 2^32 bytes, in place, widest back end of each cipher
    closed = all(val == 0 for k, val in merged.notes.items() if k.startswith("kinds_cut_by_depth_cap"))
    cov = mc_cov(merged,
                 "BFS over CTR call histories {init, set_key|set_tweaked_key, set_tweak, set_counter, encrypt(len), second set_counter} "
                 "on real objects of every available back end in lock step; states merged by context byte image + model state; "
                 "every transition's output compared with in xor E(c+i) from the reference model; states = distinct canonical states, "
                 "transitions = operations executed with oracles on (each after a full replay of its history on fresh objects)",
                 {"builds": [b.describe() for b in libs]})
    return v.finish("model_checking", cov,
                    ["reference block ciphers ref/*.c; keys/tweaks/counters outside the alphabets are not covered",
                     "stream bound 2*batch+B+1 bytes per segment (batch periodicity argument in DESIGN.md 4/C05)"],
                    exhaustive=closed)


def check_c06(tier, seed):
    v = Verdict("C06", tier, seed)
    st = new_stage()
    merged = Merged()
    lib = mkbuild("shipped").build(st)
    run_mc(st, lib, "h_ctr.c", "c06", tier, seed, merged, v, nshards=32)
    mp = run_mc(st, lib, "h_par.c", "c06p", tier, seed, merged, v, nshards=NCPU)
    others = run_parallel([lambda n=n: mkbuild(n).build(st, jobs=5) for n in ("w32", "ua0", "clang")], workers=3)
    for lw in others:   # other word size / no unaligned access: other code in the vector back ends' load, store and S-box arms
        run_mc(st, lw, "h_ctr.c", "c06", tier, seed, merged, v, nshards=32)
        run_mc(st, lw, "h_par.c", "c06p", tier, seed, merged, v, nshards=NCPU)
    closed = all(val == 0 for k, val in merged.notes.items() if k.startswith("kinds_cut_by_depth_cap"))
    cov = mc_cov(merged,
                 "BFS over CTR call histories on one object per available back end in lock step; the C05 alphabet widened with "
                 "key / tweaked-key / tweak changes in the middle of a stream without a counter reset, data calls before any key, "
                 "tweak changes on a plain key schedule, calls after cleanup and the invalid-call menu; oracle: every return value "
                 "and every output byte equal across back ends; states = distinct tuples of per-back-end context images. Parallel ECB: byte counts 0..25 blocks (+1/-1 byte) x "
                 "{encrypt, decrypt} x data families x key configurations, and zeroed / unkeyed / cleaned-up / rejected-key / NULL objects, on one object per back end in lock step",
                 {"builds": [lib.describe()] + [b.describe() for b in others], "parallel_lockstep_evaluations": mp.evaluations})
    return v.finish("model_checking", cov,
                    ["back ends the host cannot execute (NEON) are not covered", "the defined CTR regime itself is decided per back end against the stream model by C05"],
                    exhaustive=closed)


def check_c14(tier, seed):
    v = Verdict("C14", tier, seed)
    st = new_stage()
    merged = Merged()
    lib = mkbuild("shipped").build(st)
    run_mc(st, lib, "h_ctr.c", "c14", tier, seed, merged, v, nshards=32)
    m2 = run_mc(st, lib, "h_keylen.c", "c14s", tier, seed, merged, v, nshards=1)
    closed = all(val == 0 for k, val in merged.notes.items() if k.startswith("kinds_cut_by_depth_cap"))
    cov = mc_cov(merged,
                 "BFS over valid CTR histories (zeroed handle, initialised, keyed, counter set, mid-stream, cleaned up) with every class of invalid "
                 "call applied in every state; oracle: invalid call returns 0, handle+context byte image identical before/after, allocator slack untouched, "
                 "no crash; valid calls return 1. Plus the schedule-level and parallel-ECB menu (NULL schedule, NULL key, bad tweak sizes on garbage and valid schedules; parallel objects "
                 "{zeroed, initialised, keyed, cleaned-up} x 9 invalid classes x back ends with later results compared; init(NULL), cleanup(NULL); documented NULL-tweak meanings must succeed)",
                 {"builds": [lib.describe()], "menu_evaluations": m2.evaluations})
    return v.finish("model_checking", cov, ["void functions on a null object are demanded only where documented"], exhaustive=closed)


def check_c07(tier, seed):
    v = Verdict("C07", tier, seed)
    st = new_stage()
    merged = Merged()
    libs = run_parallel([lambda n=n: mkbuild(n).build(st, jobs=5) for n in ("shipped", "w32", "ua0", "clang")], workers=4)
    lib = libs[0]
    for l in libs:      # (clang: code selected by compiler macros) the 32-bit-word build compiles different vector S-box code (sbox_two) in the 128-bit back end; without unaligned access the byte-wise load / store arms
        run_mc(st, l, "h_par.c", "c07", tier, seed, merged, v, nshards=NCPU)
    huge = run_huge(st, lib, "par", tier, seed, merged, v).evaluations if tier == "thorough" else 0
    cov = {"evaluations": merged.evaluations, "distinct_nontrivial": merged.distinct,
           "rule": "every block count 0..25 (3 x widest batch + 1) x {encrypt, decrypt} x data families with per-block distinct contents x "
                   "{in-place, out-of-place} x key configurations (Skinny: 2 keys x 3 sizes; Mantis: rounds x modes, independent tweak per block) "
                   "x every back end (pinned), compared with the single-block functions block by block; plus byte counts that are not whole blocks "
                   "(must return 0, output untouched) and the advertised parallel_size; non-trivial = output differs from input. Thorough: plus one in-place request of 2^32 bytes + 9 blocks per entry point and vector back end, "
                   "sampled blocks (first, last, around every multiple of 2^32 bytes, one in 2^16) against the single-block functions",
           "requests_larger_than_4GiB": huge,
           "samples": merged.samples, "builds": [l.describe() for l in libs]}
    return v.finish("exploration", cov,
                    ["single-block functions are tied to the specification by C01/C02", "block counts above 3P+1 are not run (loop structure argument, DESIGN.md 4/C07)"])


def check_c09(tier, seed):
    v = Verdict("C09", tier, seed)
    st = new_stage()
    merged = Merged()
    builds = ["shipped", "w32ua0", "clang"] if tier == "thorough" else ["shipped"]
    libs = run_parallel([lambda n=n: mkbuild(n).build(st, jobs=5) for n in builds], workers=3)
    srcs = ["common.c", "pin.c", "families.c", "prelude.c", "alloc.c", "obj.c", "mc.c", "h_buf.c"]
    vg = ["valgrind", "-q", "--tool=memcheck", "--undef-value-errors=no", "--partial-loads-ok=no", "--error-limit=no", "--num-callers=10", "--error-exitcode=0"]
    per = {}
    for lib in libs:
        binary = build_harness(st, lib, "buf", srcs, wraps=MC_WRAPS, ref=False)
        for sub, shards in (("single", 6), ("setup", 1), ("bulk", NCPU)):
            args = ["--sub", sub, "--tier", tier, "--seed", str(seed), "--label", lib.name, "--maxbe", str(lib.maxbe)]
            spec = {"sources": srcs, "special": "c09", "build": lib.name, "args": args}
            m = Merged()
            for res in run_sharded(binary, args, st, "buf-%s-%s" % (sub, lib.name), nshards=shards, prefix=vg, timeout=7200):
                m.add(res, spec); merged.add(res, spec)
            v.handle(m, make_replayer(binary, args, prefix=vg))   # the named placement alone, again under memcheck
            per["%s/%s" % (lib.name, sub)] = m.evaluations
    uv = [val for k, val in merged.notes.items() if k.startswith("under_valgrind")]
    if not uv or any(x == 0 for x in uv):
        raise EngineError("harness did not run under valgrind")
    cov = {"evaluations": merged.evaluations, "distinct_nontrivial": merged.distinct,
           "rule": "every public function with buffer arguments, every back end, run under valgrind memcheck on the shipped gcc -O3 objects: single-block functions with input x output at all 32x32 alignment offsets "
                   "and every overlap offset -B..+B; key / tweak / counter arguments of every legal length at alignment offsets 0..31 flush against NOACCESS; CTR and parallel bulk calls over LENS with input and output "
                   "alignments (quick: 32+32 per length, thorough: 32x32) and exact aliasing at all 32 offsets; each buffer is surrounded by NOACCESS red zones (byte exact); oracle: no memcheck addressability error, "
                   "canaries intact, result equal to the aligned non-overlapping call; distinct = distinct placements",
           "samples": merged.samples, "evaluations_per_part": per, "builds": [l.describe() for l in libs]}
    return v.finish("exploration", cov, ["alignment offsets above 31 are not run (no code path keys on more)", "partial overlap of bulk buffers is not promised and not run",
                                         "uninitialised-value errors are disabled here (C11's subject)"])


def check_c10(tier, seed):
    v = Verdict("C10", tier, seed)
    st = new_stage()
    merged = Merged()
    builds = ["shipped", "w32", "O0"]
    libs = run_parallel([lambda n=n: mkbuild(n).build(st, jobs=6) for n in builds], workers=3)
    per = {}
    for lib in libs:
        m = run_mc(st, lib, "h_keylen.c", "c10", tier, seed, merged, v, nshards=NCPU)
        per[lib.name] = m.evaluations
    cov = {"evaluations": merged.evaluations, "distinct_nontrivial": merged.distinct,
           "rule": "every key length 0..64, {65,255,256,65536,2^31,UINT_MAX}, 2^k + {0,B,2B,3B} for k = 24..31 and 2^32 - v for v = 1..48 (where length arithmetic could wrap) x the ten SKINNY key-setting entry points (single-block, tweaked, CTR, CTR tweaked, parallel; every back end) "
                   "x key contents (R1 fill, 0xFF fill, every%s byte value at every position beyond the last primary boundary); Mantis: sizes {0,1,8,15,16,17,24,32,33,255,65536,UINT_MAX} x rounds 0..12 (+wrapped) x modes x 3 entry points. "
                   "Accepted length: schedule image, ciphertexts and specification agree with the same bytes zero-padded to the next primary size (stack painted 0x00 vs 0xA5 before the two calls). "
                   "Rejected length: returns 0, pre-existing object byte-identical (three priors), key buffer is one byte flush against a PROT_NONE page so rejection must precede any read. "
                   "Runs on the shipped, 32-bit-word and -O0 builds; distinct = distinct (entry point, back end, length, key) cases" % ("" if tier == "thorough" else " 17th"),
           "samples": merged.samples, "evaluations_per_build": per, "builds": [l.describe() for l in libs]}
    return v.finish("exploration", cov, ["lengths between 65 and UINT_MAX other than the listed ones are not run (validation is a pair of comparisons)"])


C11_SUBS = [("h_dp.c", "c01", False), ("h_dp.c", "c02", False), ("h_dp.c", "c04", False), ("h_par.c", "c07", True),
            ("h_keylen.c", "c10", True), ("h_ctr.c", "c05", True), ("h_ctr.c", "c06", True), ("h_life.c", "c16", True), ("h_sched.c", "c04", True)]


def check_c11(tier, seed):
    v = Verdict("C11", tier, seed)
    st = new_stage()
    merged = Merged()
    msan_flags = "-O1 -g -fsanitize=memory -fsanitize-memory-track-origins=2 -fno-omit-frame-pointer"
    builds = run_parallel([lambda: mkbuild("msan", cc="clang", common=msan_flags + " -Wall").build(st, jobs=5),
                           lambda: mkbuild("shipped").build(st, jobs=5), lambda: mkbuild("O0").build(st, jobs=5)], workers=3)
    msan, shipped, o0 = builds
    env = dict(os.environ); env["MSAN_OPTIONS"] = "exitcode=77:halt_on_error=1"
    per = {}
    subs = C11_SUBS if tier == "thorough" else [x for x in C11_SUBS if x[0] != "h_sched.c"]
    # (h_life.c c16: the allocation-failure histories, whose caller object is painted / poisoned before the failing init)
    # both tiers run every shard of these enumerations (the quick tier used to run the first three of sixteen, which
    # left out whole ciphers' simple-key worlds once the alphabets had grown); quick leaves out the h_sched.c worlds
    part = None
    work = []
    # (a) MemorySanitizer: explicit shadow tests on everything the API returns
    def one_msan(src, sub, mc):
        sources = (MC_SRC if mc else COMMON_SRC) + [src]
        binary = build_harness(st, msan, "msan-" + sub + src[2:-2], sources, cc="clang", cflags=msan_flags + " -Wall -Wextra -Wno-unused-parameter",
                               wraps=MC_WRAPS if mc else WRAP_PIN)
        args = ["--sub", sub, "--tier", "quick", "--seed", str(seed), "--label", "msan", "--maxbe", str(msan.maxbe), "--paint", "0"]
        m = Merged()
        for res in run_sharded(binary, args, st, "msan-%s-%s" % (sub, src[2:-2]), nshards=NCPU, env=env, timeout=3000, only=None if sub in ("c16", "c06") else part):
            m.add(res, None)
        return ("msan", src, sub, None, 0, m, make_replayer(binary, args, env=env))
    for src, sub, mc in subs:
        work.append(lambda src=src, sub=sub, mc=mc: one_msan(src, sub, mc))
    # (b) paint differential: stack / caller objects painted 0x00 vs 0xA5, at -O3 and -O0
    sums = {}

    def one_paint(lib, src, sub, mc, paint):
        sources = (MC_SRC if mc else COMMON_SRC) + [src]
        binary = build_harness(st, lib, "paint-%s%s-%d" % (sub, src[2:-2], paint), sources, wraps=MC_WRAPS if mc else WRAP_PIN)
        args = ["--sub", sub, "--tier", "quick", "--seed", str(seed), "--label", lib.name, "--maxbe", str(lib.maxbe), "--paint", str(paint)]
        m = Merged()
        for res in run_sharded(binary, args, st, "paint-%s-%s-%s-%d" % (lib.name, sub, src[2:-2], paint), nshards=NCPU, timeout=3000, only=None if sub in ("c16", "c06") else part):
            m.add(res, None)
        return ("paint", src, sub, lib, paint, m, make_replayer(binary, args))
    for lib in (shipped, o0):
        for src, sub, mc in subs:
            for paint in (0, 165):
                work.append(lambda lib=lib, src=src, sub=sub, mc=mc, paint=paint: one_paint(lib, src, sub, mc, paint))
    for kind, src, sub, lib, paint, m, rp in run_parallel(work, workers=4):
        v.handle(m, rp)   # every reported case is re-executed stand-alone before it is believed
        if kind == "msan":
            per["msan/%s/%s" % (src, sub)] = m.evaluations + m.transitions
            merged.evaluations += m.evaluations; merged.transitions += m.transitions; merged.distinct += m.distinct; merged.states += m.states
            merged.samples += [x for x in m.samples if x not in merged.samples][:2]
        else:
            sums[(src, sub, lib.name, paint)] = m.out_sums
            per["paint/%s/%s/%s/%02x" % (lib.name, src, sub, paint)] = m.evaluations + m.transitions
    ncmp = 0
    for src, sub, mc in subs:
        ref = sums[(src, sub, "shipped", 0)]
        for key, val in sums.items():
            if key[0] != src or key[1] != sub:
                continue
            for tag in set(ref) | set(val):
                ncmp += 1
                if ref.get(tag) != val.get(tag):
                    v.new.append({"sig": "C11/results-depend-on-memory-contents/%s" % tag, "case": "", "label": key[2], "replay": None,
                                  "detail": "digest of all '%s' results of the %s/%s histories differs between (shipped -O3, paint 0x00) and (%s, paint 0x%02x): %s vs %s"
                                            % (tag, src, sub, key[2], key[3], ref.get(tag), val.get(tag))})
    cov = {"evaluations": merged.evaluations + merged.transitions, "distinct_nontrivial": merged.distinct + merged.states,
           "rule": "the quick histories of C01, C02, C04, C05, C06 (re-keying and tweak changes outside the stream regime, back ends in lock step), C07, C10 and the allocation-failure histories of C16 executed (a) in a clang MemorySanitizer build (origins tracked) with an explicit shadow test on every output block, key schedule, "
                   "context image and return value, caller objects and the stack below each call poisoned; (b) in the shipped -O3 and the -O0 builds twice each with the stack below every call and the caller's "
                   "objects painted 0x00 vs 0xA5: the digests of everything returned must be bit-identical across the four runs; distinct = distinct cases of those histories",
           "samples": merged.samples[:6], "runs": per, "digest_comparisons": ncmp, "result_tags": sorted(set(t for val in sums.values() for t in val)),
           "builds": [b.describe() for b in builds]}
    return v.finish("exploration", cov, ["paths not in those histories are not covered", "heap blocks come from calloc (zeroed) in every back end; a block obtained through malloc, realloc, posix_memalign, aligned_alloc or memalign is filled with the paint pattern of the run and poisoned under MemorySanitizer by the allocator seam"])


def c12_configs(tier):
    """(name, LibBuild kwargs).  SIMD sets: all, 128 only, none, none + byte-order-neutral scalar path."""
    simd = {"s2": ([], 2), "s1": (["-DSKINNY_C_VERIF_VEC256_MATH=0"], 1),
            "s0": (["-DSKINNY_C_VERIF_VEC128_MATH=0", "-DSKINNY_C_VERIF_VEC256_MATH=0"], 0),
            "s0be": (["-DSKINNY_C_VERIF_VEC128_MATH=0", "-DSKINNY_C_VERIF_VEC256_MATH=0", "-DSKINNY_C_VERIF_LITTLE_ENDIAN=0"], 0)}
    out = []

    def add(w, u, sd, cc, opt):
        defs = list(simd[sd][0])
        if w == 32:
            defs.append("-DSKINNY_C_VERIF_64BIT=0")
        if u == 0:
            defs.append("-DSKINNY_C_VERIF_UNALIGNED=0")
        name = "w%d-u%d-%s-%s-O%s" % (w, u, sd, cc, opt)
        out.append((name, dict(cc=cc, common="-O%s -Wall -Wextra" % opt, defs=defs, maxbe=simd[sd][1])))
    if tier == "thorough":
        for w in (64, 32):
            for u in (1, 0):
                for sd in ("s2", "s1", "s0", "s0be"):
                    for cc in ("gcc", "clang"):
                        for opt in "0123":
                            add(w, u, sd, cc, opt)
    else:
        # covering subset: every switch value, and every (switch value, compiler) pair, occurs
        for w, u, sd, cc, opt in [(64, 1, "s2", "gcc", "3"), (32, 1, "s2", "gcc", "3"), (64, 0, "s2", "gcc", "2"), (32, 0, "s1", "gcc", "1"),
                                  (64, 1, "s0", "gcc", "0"), (32, 0, "s0be", "gcc", "3"), (64, 1, "s0be", "gcc", "2"),
                                  (64, 1, "s2", "clang", "3"), (32, 0, "s2", "clang", "2"), (64, 0, "s1", "clang", "0"),
                                  (32, 1, "s0", "clang", "1"), (64, 0, "s0be", "clang", "3"), (32, 1, "s0be", "clang", "0")]:
            add(w, u, sd, cc, opt)
    return out


def check_c12(tier, seed):
    v = Verdict("C12", tier, seed)
    st = new_stage()
    merged = Merged()
    cfgs = c12_configs(tier)
    srcs = ["common.c", "pin.c", "families.c", "alloc.c", "obj.c", "mc.c", "h_cfg.c"]
    host_max = 2   # the harness refuses a back end the host cannot execute
    crashed = []

    def one(name, kw):
        lib = LibBuild(name=name, **kw).build(st, jobs=4)
        binary = build_harness(st, lib, "cfg", srcs, wraps=MC_WRAPS, ref=False)
        runs = []
        for be in range(0, lib.maxbe + 1):
            out = os.path.join(st, "cfg-%s-be%d.json" % (name, be))
            try:
                res = run_harness(binary, ["--sub", "be%d" % be, "--tier", tier, "--seed", str(seed), "--label", name, "--maxbe", str(lib.maxbe)], out, timeout=1800)
            except EngineError as e:
                if "not available in this build/host" in str(e):
                    continue
                mm = re.search(r"harness exit -(\d+)", str(e))
                if mm:      # the battery died of a signal in this configuration: that is a result, not an engine failure
                    crashed.append((name, be, int(mm.group(1))))
                    continue
                raise
            runs.append((name, be, res))
        shutil_rm(lib.dir)
        return runs
    allruns = []
    for chunk in run_parallel([lambda n=n, kw=kw: one(n, kw) for n, kw in cfgs], workers=4):
        allruns += chunk
    for name, be, sig in crashed:
        v.new.append({"sig": "C12/battery-crashes-in-one-configuration/be%d" % be, "case": "", "label": name, "replay": None,
                      "detail": "the battery, which completes in the reference configuration, died of signal %d in configuration %s on back end %s" % (sig, name, ["gen", "v128", "v256"][be])})
    ref_name, ref_be, ref = allruns[0]
    ncmp = 0
    for name, be, res in allruns:
        m = Merged(); m.add(res, None)
        v.handle(m, None)
        merged.evaluations += res.get("evaluations", 0)
        for tag, val in res.get("out_sums", {}).items():
            if tag not in ref.get("out_sums", {}):
                continue
            ncmp += 1
            if ref["out_sums"][tag] != val:
                v.new.append({"sig": "C12/configuration-dependent-result/%s" % tag, "case": "", "label": name, "replay": None,
                              "detail": "section '%s': configuration %s on back end %s computes digest %s, configuration %s on back end %s computes %s"
                                        % (tag, name, vplib_be(be), val, ref_name, vplib_be(ref_be), ref["out_sums"][tag])})
    for s_ in ref.get("samples", []):
        merged.samples.append(s_)
    cov = {"evaluations": merged.evaluations, "distinct_nontrivial": len(allruns),
           "rule": "configurations = {64,32}-bit word paths x {unaligned fast paths, byte-wise} x {SIMD 128+256, 128 only, none, none + byte-order-neutral scalar path} x {gcc, clang} x {-O0..-O3} "
                   "(thorough: all 128; quick: a 13-build covering subset in which every switch value and every (switch value, compiler) pair occurs), each built through the repository Makefile with the guarded "
                   "platform-switch hook; in each build one deterministic battery (block families for all variants incl. tweakable and Mantis, CTR streams over 5 key configurations x 8 counters x 6 cut patterns "
                   "with mid-stream re-key / tweak change, parallel ECB for every block count 0..25, key lengths 0..50) runs pinned to each back end the build contains; oracle: every section digest identical "
                   "across all (configuration, back end) runs; distinct = number of (configuration, back end) runs compared",
           "samples": merged.samples[:4] + [{"configurations": [n for n, kw in cfgs][:16]}], "runs": len(allruns), "configurations": len(cfgs), "digest_comparisons": ncmp,
           "sections": sorted(ref.get("out_sums", {}).keys())}
    return v.finish("exploration", cov, ["the reference (first) configuration is the shipped one, which C01-C07/C10 tie to the specification", "real big-endian or 32-bit hosts and NEON are out of reach on this host"])


def vplib_be(be):
    return ["gen", "v128", "v256"][be]


def shutil_rm(path):
    import shutil
    shutil.rmtree(path, ignore_errors=True)


def check_c13(tier, seed):
    v = Verdict("C13", tier, seed)
    st = new_stage()
    merged = Merged()
    libs = run_parallel([lambda: mkbuild("shipped").build(st, jobs=5),
                         lambda: mkbuild("cpumodel", defs=["-DSKINNY_C_VERIF_CPUID"]).build(st, jobs=5),
                         lambda: mkbuild("cpumodel-no256", defs=["-DSKINNY_C_VERIF_CPUID", "-DSKINNY_C_VERIF_VEC256_MATH=0"], maxbe=1).build(st, jobs=5),
                         lambda: mkbuild("no256", defs=["-DSKINNY_C_VERIF_VEC256_MATH=0"], maxbe=1).build(st, jobs=5),
                         lambda: mkbuild("nosimd").build(st, jobs=5),
                         # the 128-bit back ends compiled out, the 256-bit ones in: Skinny-128 still has its widest back end to select
                         lambda: mkbuild("no128", defs=["-DSKINNY_C_VERIF_VEC128_MATH=0"], maxbe=2).build(st, jobs=5),
                         lambda: mkbuild("cpumodel-no128", defs=["-DSKINNY_C_VERIF_CPUID", "-DSKINNY_C_VERIF_VEC128_MATH=0"], maxbe=2).build(st, jobs=5),
                         lambda: mkbuild("cpumodel-nosimd", defs=["-DSKINNY_C_VERIF_CPUID", "-DSKINNY_C_VERIF_VEC128_MATH=0", "-DSKINNY_C_VERIF_VEC256_MATH=0"], maxbe=0).build(st, jobs=5)], workers=8)
    srcs = ["common.c", "pin.c", "families.c", "alloc.c", "obj.c", "h_cpu.c", "tramp.S"]
    per = {}
    for lib in libs:
        model = lib.name.startswith("cpumodel")
        binary = build_harness(st, lib, "cpu", srcs, wraps=WRAP_ALLOC, ref=False, defs=["-DMODEL"] if model else [])
        args = ["--tier", tier, "--seed", str(seed), "--label", lib.name, "--maxbe", str(lib.maxbe)] + (["--sub", "no128"] if lib.name.endswith("no128") else [])
        spec = {"sources": srcs, "special": "c13", "build": lib.name, "args": args}
        m = Merged()
        for res in run_sharded(binary, args, st, "cpu-" + lib.name, nshards=8 if model else 1):
            m.add(res, spec); merged.add(res, spec)
        v.handle(m, None)
        per[lib.name] = m.evaluations
    # (c) instruction audit of the objects as the repository's Makefile builds them: every object except the two
    # 256-bit back ends can be reached on a CPU that only has SSE2, so none of their instructions may be VEX/EVEX encoded
    audit = {}
    import re as _re
    pa = vplib.sh(["objdump", "-d", "--no-show-raw-insn", libs[0].lib], check=False)
    cur = None
    # VEX/EVEX-encoded, or an instruction of an extension beyond SSE2 (SSE3, SSSE3, SSE4.x, AES, PCLMUL, BMI, MOVBE, POPCNT/LZCNT)
    vex = _re.compile(r"^\s*[0-9a-f]+:\s+(v[a-z0-9]+|pshufb|palignr|pabs[bwd]|phaddw|phaddd|phaddsw|phsubw|phsubd|phsubsw|pmaddubsw|pmulhrsw|psign[bwd]|"
                      r"pblendw|pblendvb|blendp[sd]|blendvp[sd]|pmuldq|pmulld|pminsb|pminsd|pminuw|pminud|pmaxsb|pmaxsd|pmaxuw|pmaxud|pextr[bdq]|pinsr[bdq]|ptest|"
                      r"roundp[sd]|rounds[sd]|dpp[sd]|packusdw|pmovsx[a-z]+|pmovzx[a-z]+|pcmpeqq|pcmpgtq|crc32[bwlq]?|pcmp[ie]str[im]|popcnt[wlq]?|lzcnt[wlq]?|tzcnt[wlq]?|"
                      r"aes[a-z]+|pclmul[a-z]*|andn[lq]?|bextr[lq]?|bls[ir][lq]?|blsmsk[lq]?|pdep[lq]?|pext[lq]?|bzhi[lq]?|mulx[lq]?|rorx[lq]?|sarx[lq]?|shlx[lq]?|shrx[lq]?|"
                      r"movbe[wlq]?|lddqu|haddp[sd]|hsubp[sd]|addsubp[sd]|movddup|movshdup|movsldup|mpsadbw|phminposuw|extractps|insertps|movntdqa)\b|%[yz]mm\d")
    for line in (pa.stdout or "").splitlines():
        mh = _re.match(r"^(\S+\.o):\s+file format", line)
        if mh:
            cur = mh.group(1); audit[cur] = [0, 0, None]; continue
        if cur and _re.match(r"^\s*[0-9a-f]+:\s", line):
            audit[cur][0] += 1
            if vex.search(line):
                audit[cur][1] += 1
                audit[cur][2] = audit[cur][2] or line.strip()
    if len(audit) < 10 or sum(a[0] for a in audit.values()) < 1000:
        raise EngineError("instruction audit saw too little: %r" % ({k: a[0] for k, a in audit.items()},))
    if not any(a[1] for k, a in audit.items() if k.endswith("-vec256.o")):
        raise EngineError("instruction audit control failed: no VEX instruction found in the 256-bit back ends")
    for k, a in sorted(audit.items()):
        if a[1] and not k.endswith("-vec256.o"):
            v.new.append({"sig": "C13/object-needs-avx/%s" % k, "case": "", "label": libs[0].name, "replay": None,
                          "detail": "%s (built by src/Makefile and options.mak, reachable on a CPU with SSE2 only) contains %d instruction(s) of %d that need more than SSE2, first: %s" % (k, a[1], a[0], a[2])})
    states = sum(val for k, val in merged.notes.items() if k.startswith("environment_states"))
    cov = {"states": int(states), "transitions": merged.evaluations, "traces_validated_against_impl": merged.evaluations,
           "instruction_audit": {k: {"instructions": a[0], "vex_encoded": a[1]} for k, a in sorted(audit.items())},
           "evaluations": merged.evaluations, "distinct_nontrivial": merged.distinct,
           "rule": "(b) environment states = max basic leaf {1,2,4,6,7,0xB,0xD,0x1F} x out-of-range leaf behaviour {zeros, highest-basic-leaf data} x SSE2 x OSXSAVE x AVX x XCR0 {1,3,7,0xE7} x AVX2 x "
                   "leaf-7 sub-leaf-1 contents {0, ones} x all other feature bits {0, ones}, consistent CPUs only, answered through the guarded CPUID/XGETBV seam; every state x each of the six init "
                   "functions executed twice (different caller registers, stack paint and prior content of the caller's object: 0x00 / 0xFF) on builds with both SIMD back ends, with only the 128-bit one and with none compiled in; oracle: selected vtable / function table and "
                   "parallel_size == widest back end compiled in and usable in that state. (a) the real CPU: six inits x 14 caller-register/stack/object patterns x 3 repetitions through an assembly trampoline, same three builds, "
                   "oracle = the compiler's CPU detection; transitions = init calls judged. (c) every instruction of every object of the Makefile-built library is decoded: only the two 256-bit back-end objects may contain instructions beyond the x86-64 baseline with SSE2 (VEX-encoded, SSE3/SSSE3/SSE4.x, AES, BMI, ...); they are the control",
           "samples": merged.samples, "notes": merged.notes, "calls_per_build": per, "builds": [l.describe() for l in libs]}
    return v.finish("model_checking", cov, ["x86 only (NEON has no run-time probe)", "model states that would select a back end the host cannot execute are skipped and counted"], exhaustive=True)


def check_c19(tier, seed):
    v = Verdict("C19", tier, seed)
    st = new_stage()
    merged = Merged()
    lib = mkbuild("shipped").build(st)
    ard = os.path.join(st, "tree", "arduino", "libraries", "Skinny")
    objdir = os.path.join(st, "ard-obj"); os.makedirs(objdir)
    csrc = ["common.c", "pin.c", "families.c", "alloc.c", "obj.c"]
    objs = []
    inc = ["-I" + os.path.join(VERIF, "harness"), "-I" + os.path.join(VERIF, "ref")] + lib.incflags()
    jobs = []
    for c in csrc:
        o = os.path.join(objdir, c[:-2] + ".o"); objs.append(o)
        jobs.append(lambda c=c, o=o: vplib.sh(["gcc", "-O1", "-g", "-Wall", "-Wextra", "-Wno-unused-parameter"] + inc + ["-c", os.path.join(VERIF, "harness", c), "-o", o]))
    cpps = [os.path.join(ard, f) for f in ("Skinny128.cpp", "Skinny64.cpp", "Mantis8.cpp", "CTR.cpp", "BlockCipher.cpp", "Cipher.cpp", "Crypto.cpp")]
    for c in cpps + [os.path.join(VERIF, "harness", "h_ard.cpp")]:
        o = os.path.join(objdir, os.path.basename(c)[:-4] + ".o"); objs.append(o)
        jobs.append(lambda c=c, o=o: vplib.sh(["g++", "-O2", "-g", "-Wall", "-I" + ard] + inc + ["-c", c, "-o", o]))
    run_parallel(jobs, workers=8)
    binary = os.path.join(st, "bin-ard")
    vplib.sh(["g++"] + objs + [lib.lib, "-Wl," + ",".join("--wrap=" + w for w in MC_WRAPS), "-o", binary])
    per = {}
    for sub, shards in (("fam", NCPU), ("hist", 5), ("ctr", NCPU)):
        args = ["--sub", sub, "--tier", tier, "--seed", str(seed), "--label", "ard", "--maxbe", "2"]
        m = Merged()
        for res in run_sharded(binary, args, st, "ard-" + sub, nshards=shards):
            m.add(res, {"special": "c19"}); merged.add(res, {"special": "c19"})
        v.handle(m, make_replayer(binary, args))
        per[sub] = m.evaluations
    cov = {"evaluations": merged.evaluations, "distinct_nontrivial": merged.distinct,
           "rule": "Arduino classes compiled unchanged with the host g++ (portable path; USE_AVR_INLINE_ASM undefined off-AVR) against the C library: (1) BG/BYTE/PAIR/BIT families over [tweak||]key||block "
                   "through setKey/[setTweak]/encryptBlock/decryptBlock of all 11 block-cipher classes; (2) every history up to depth %d over {setKey(K0|K1|wrong length), setTweak(zero|FF|R1|R2|NULL|wrong length), "
                   "clear+setKey, swapModes} for the four tweakable classes and Mantis8, oracle = C library keyed afresh with the last key/tweak/mode on 4 blocks x 2 directions; (3) CTR<T> over the five "
                   "Skinny-128 classes x IVs with carries through every byte x every sequence of up to %d encrypt lengths from {0,1,2,15,16,17,31,32,33,49} in lock step with skinny128_ctr_* on the generic back end, "
                   "each with setCounterSize(16) issued before setKey, between setKey and setIV, or after setIV, and with counter sizes 1, 2, 4 and 15 at the same three places (encrypt and decrypt alternating) against "
                   "in xor E(c_i) built from the C library's block function with c_i incremented in the last bytes only; a second setKey in the middle of a stream keeps counter and counter size; "
                   "wrong-length setKey/setTweak/setIV and setCounterSize(0 | 17) must return false and change nothing" % (5 if tier == "thorough" else 4, 4 if tier == "thorough" else 3),
           "samples": merged.samples, "notes": merged.notes, "evaluations_per_part": per, "builds": [lib.describe(), "g++ -O2 arduino/libraries/Skinny/*.cpp"]}
    return v.finish("exploration", cov, ["the AVR inline-assembly path is out of reach on the host", "histories that use an object before its first setKey have no C counterpart and are not in the alphabet", "setCounterSize < 16 has no C CTR counterpart: its reference is the C block function under the documented increment rule",
                                         "the C library side is tied to the specification by C01-C05"])


def check_c20(tier, seed):
    import random
    v = Verdict("C20", tier, seed)
    st = new_stage()
    lib = mkbuild("shipped", hooks=False).build(st)
    import shutil
    shutil.copytree(os.path.join(st, "tree", "examples"), os.path.join(lib.dir, "examples"))
    vplib.sh(["make", "-C", os.path.join(lib.dir, "examples"), "-j4", "COMMON_CFLAGS=-O3 -Wall -Wextra"])
    ex = os.path.join(lib.dir, "examples")
    oracle = os.path.join(st, "h_cli")
    vplib.sh(["gcc", "-O1", "-g", "-Wall"] + lib.incflags() + [os.path.join(VERIF, "harness", "h_cli.c"), lib.lib, "-o", oracle])
    work = os.path.join(st, "cli"); os.makedirs(work)
    rnd = random.Random(20260000 + seed)
    files = {}

    def infile(n):
        if n not in files:
            p = os.path.join(work, "in-%d.bin" % n)
            with open(p, "wb") as f:
                f.write(bytes(rnd.getrandbits(8) for _ in range(n)))
            files[n] = p
        return files[n]
    cases = []
    for bs in (8, 16):
        lens = [0, 1, bs - 1, bs, bs + 1, 1023, 1024, 1025, 2047, 2048, 2049, 3 * 1024 + bs + 1]
        keylens_plain = [bs, 2 * bs, 3 * bs, bs + 3, 2 * bs + 5]
        keylens_tw = [bs, 2 * bs, bs + 3]
        shorts = list(range(1, bs)) if tier == "thorough" else [1, bs // 2, bs - 1]
        tweaks = [None, bs] + shorts
        for n in lens:
            for kl in keylens_plain:
                for tl in (tweaks if (n in (bs + 1, 1025, 3 * 1024 + bs + 1) or tier == "thorough") else [None, bs]):
                    cases.append(("ctr", "enc", bs, kl, tl, n))
                for d in ("enc", "dec"):
                    cases.append(("ecb", d, bs, kl, None, n))
            for kl in keylens_tw:
                for tl in (tweaks if (n in (bs + 1, 1025, 3 * 1024 + bs + 1) or tier == "thorough") else [None, bs]):
                    for d in ("enc", "dec"):
                        cases.append(("tweak", d, bs, kl, tl, n))
    tool = {"ctr": "skinny-ctr", "ecb": "skinny-ecb", "tweak": "skinny-tweak"}
    samples = []

    def hexbytes(k, salt):
        r = random.Random(salt * 1000 + k)
        return "".join("%02x" % r.getrandbits(8) for _ in range(k))

    def one(idx, c):
        mode, d, bs, kl, tl, n = c
        key = hexbytes(kl, 7 + idx % 3)
        tw = None if tl is None else (("ff" * tl) if idx % 4 == 1 else hexbytes(tl, 11))
        inp = infile(n)
        out = os.path.join(work, "out-%d.bin" % idx); exp = os.path.join(work, "exp-%d.bin" % idx); back = os.path.join(work, "back-%d.bin" % idx)
        # option order varies with the case index: -b first, -b last, -d first
        # the tool sees the hexadecimal arguments in upper case, lower case or mixed case depending on the case index;
        # the oracle always gets lower case
        def spell(hx, salt):
            k = (idx + salt) % 5
            if k == 4:      # the separators the tools' parser accepts between bytes
                return ":".join(hx[i:i + 2] for i in range(0, len(hx), 2)) if (idx // 5) % 2 else " ".join(hx[i:i + 2].upper() for i in range(0, len(hx), 2))
            return hx if k == 0 else (hx.upper() if k == 1 else "".join(ch.upper() if (i + k) % 2 else ch for i, ch in enumerate(hx)))
        opts = [["-b", str(bs * 8)], ["-k", spell(key, 0)]]
        if tw is not None:
            opts.append(["-c" if mode == "ctr" else "-t", spell(tw, 1)])
        if d == "dec":
            opts.append(["-d"])
            if idx % 4 == 3:
                opts.append(["-d"])     # a flag given twice is still the flag (a wrapper script that always passes -d, and the user does too)
        if idx % 3 == 1:
            opts = opts[1:] + opts[:1]
        elif idx % 3 == 2:
            opts = list(reversed(opts))
        cmd = [os.path.join(ex, tool[mode])] + [x for o_ in opts for x in o_]
        stale = idx % 2 == 1
        if stale:   # the output paths already exist and hold more bytes than the tool is going to write
            for f_ in (out, back):
                with open(f_, "wb") as fh:
                    fh.write(b"\x5a" * (n + 777))
        p = vplib.sh(cmd + [inp, out], check=False)
        desc = "%s %s%s" % (" ".join(os.path.basename(x) if os.sep in x else x for x in cmd), "in-%d.bin" % n, " (output file existed, %d bytes)" % (n + 777) if stale else "")
        errs = []
        if p.returncode != 0:
            return [("C20/%s/legal-invocation-failed" % tool[mode], "%s: exit %d: %s" % (desc, p.returncode, (p.stdout or "")[:200]))], desc
        po = vplib.sh([oracle, mode, d, str(bs), key, tw or "-", inp, exp], check=False)
        if po.returncode != 0:
            raise EngineError("oracle failed for %s (exit %d)" % (desc, po.returncode))
        if not os.path.exists(out):
            for f_ in (exp, back):
                if os.path.exists(f_):
                    os.remove(f_)
            return [("C20/%s/no-output-file" % tool[mode], "%s: the tool exited 0 but there is no output file" % desc)], desc
        a = open(out, "rb").read(); b = open(exp, "rb").read()
        if a != b:
            k = next((i for i in range(min(len(a), len(b))) if a[i] != b[i]), min(len(a), len(b)))
            errs.append(("C20/%s/output-differs-from-library" % tool[mode], "%s: tool wrote %d bytes, library gives %d bytes, first difference at byte %d" % (desc, len(a), len(b), k)))
        # round trip
        cmd2 = [os.path.join(ex, tool[mode]), "-b", str(bs * 8), "-k", spell(key, 2)]
        if tw is not None:
            cmd2 += ["-c" if mode == "ctr" else "-t", spell(tw, 3)]
        if mode != "ctr" and d == "enc":
            cmd2 += ["-d"]
        if mode == "ctr" or d == "enc":
            p2 = vplib.sh(cmd2 + [out, back], check=False)
            orig = open(inp, "rb").read()
            want = orig if mode == "ctr" else orig[:len(orig) - len(orig) % bs]
            if p2.returncode != 0 or not os.path.exists(back) or open(back, "rb").read() != want:
                errs.append(("C20/%s/round-trip" % tool[mode], "%s: running the tool again%s does not restore the %s" % (desc, "" if mode == "ctr" else " with -d", "input" if mode == "ctr" else "whole blocks of the input")))
        for f_ in (out, exp, back):
            if os.path.exists(f_):
                os.remove(f_)
        return errs, desc
    for c in cases:
        infile(c[5])          # inputs are created before the parallel phase
    infile(100)
    results = run_parallel([lambda i=i, c=c: one(i, c) for i, c in enumerate(cases)], workers=NCPU)
    # invalid options: non-zero exit and no output file
    inv = []
    good_in = infile(100)
    k16 = "00112233445566778899aabbccddeeff"
    menu = [("missing -k", ["-b", "128", good_in, "OUT"]), ("bad hex", ["-k", "zz11", good_in, "OUT"]), ("empty hex", ["-k", "", good_in, "OUT"]),
            ("key too short", ["-b", "128", "-k", "0011223344", good_in, "OUT"]), ("key too long", ["-b", "64", "-k", k16 * 2, good_in, "OUT"]),
            ("key too long for 128", ["-b", "128", "-k", k16 * 3 + "00", good_in, "OUT"]),
            ("counter/tweak longer than the block", ["-b", "64", "-k", k16, "-c", "00112233445566778899", good_in, "OUT"]),
            ("counter/tweak longer than the block, -b given last", ["-k", k16, "-c", "00112233445566778899", "-b", "64", good_in, "OUT"]),
            ("16-byte counter/tweak with -b 64 given last", ["-c", k16, "-k", k16, "-b", "64", good_in, "OUT"]),
            ("17-byte counter/tweak", ["-k", k16, "-c", k16 + "00", good_in, "OUT"]),
            ("key too long, -b given last", ["-k", k16 * 2, "-b", "64", good_in, "OUT"]),
            ("key too short, -b given first", ["-b", "64", "-k", "00112233445566", good_in, "OUT"]),
            ("bad -b", ["-b", "96", "-k", k16, good_in, "OUT"]),
            ("-b 65", ["-b", "65", "-k", k16, good_in, "OUT"]), ("-b 71", ["-b", "71", "-k", k16, good_in, "OUT"]), ("-b 129", ["-b", "129", "-k", k16, good_in, "OUT"]),
            ("-b 64x", ["-b", "64x", "-k", k16, good_in, "OUT"]), ("-b 128bit", ["-b", "128bit", "-k", k16, good_in, "OUT"]), ("-b 0", ["-b", "0", "-k", k16, good_in, "OUT"]),
            ("-b -64", ["-b", "-64", "-k", k16, good_in, "OUT"]), ("-b ' 64'", ["-b", " 64", "-k", k16, good_in, "OUT"]), ("-b 8", ["-b", "8", "-k", k16, good_in, "OUT"]),
            ("-b 16", ["-b", "16", "-k", k16, good_in, "OUT"]), ("-b 1024", ["-b", "1024", "-k", k16, good_in, "OUT"]),
            ("missing file arguments", ["-k", k16]), ("missing output file", ["-k", k16, good_in]),
            ("unreadable input", ["-k", k16, os.path.join(work, "does-not-exist"), "OUT"]), ("unknown option", ["-x", "-k", k16, good_in, "OUT"]),
            ("empty counter/tweak", ["-k", k16, "-c", "", good_in, "OUT"])]
    ninv = 0
    for t in ("skinny-ctr", "skinny-ecb", "skinny-tweak"):
        for name, argv in menu:
            argv = list(argv)
            if t == "skinny-tweak":
                argv = ["-t" if a == "-c" else a for a in argv]
                if name == "key too long":
                    argv[3] = k16 + "00"
                if name == "key too long, -b given last":
                    argv[1] = k16 + "00"
                if name == "key too long for 128":
                    argv[3] = k16 * 2 + "00"
            outp = os.path.join(work, "inv-out.bin")
            if os.path.exists(outp):
                os.remove(outp)
            argv = [outp if a == "OUT" else a for a in argv]
            p = vplib.sh([os.path.join(ex, t)] + argv, check=False)
            ninv += 1
            if p.returncode == 0:
                inv.append(("C20/%s/invalid-options-accepted" % t, "%s with %s exited 0" % (t, name)))
            if os.path.exists(outp):
                inv.append(("C20/%s/invalid-options-produced-output" % t, "%s with %s created an output file" % (t, name)))
    nviol = 0
    for errs, desc in results:
        for sig, detail in errs:
            nviol += 1
            if sum(1 for x in v.new if x["sig"] == sig) < 3:
                v.new.append({"sig": sig, "case": "", "label": "shipped", "replay": None, "detail": detail})
    for sig, detail in inv:
        if sum(1 for x in v.new if x["sig"] == sig) < 3:
            v.new.append({"sig": sig, "case": "", "label": "shipped", "replay": None, "detail": detail})
    cov = {"evaluations": len(cases) + ninv, "distinct_nontrivial": len(set(cases)) + ninv,
           "rule": "the three tools as built by examples/Makefile (shipped flags), run as subprocesses in a scratch directory: file lengths {0,1,B-1,B,B+1,1023,1024,1025,2047,2048,2049,3*1024+B+1} x block size {64,128} x "
                   "key lengths {B,2B,3B (2B for skinny-tweak), two in-between} x counter/tweak {absent, full, short lengths} x {encrypt, -d}; oracle: a separate program that makes the library calls directly "
                   "(CTR over the whole file; whole blocks only for ecb/tweak with the per-block tweak increment), byte equality and round trip; plus an invalid-option menu of %d invocations that must exit non-zero "
                   "and create no output file; distinct = distinct invocations" % ninv,
           "samples": [d for e_, d in results[:3]] + ["skinny-ctr -b 64 -k <24 bytes> -c <3 bytes> in-3081.bin"], "invalid_invocations": ninv, "builds": [lib.describe()]}
    return v.finish("exploration", cov, ["I/O errors in the middle of a file are not injected", "file contents are a fixed pseudo-random fill per length (seeded); the ciphers themselves are C01/C05's subject"])


def check_c15(tier, seed):
    v = Verdict("C15", tier, seed)
    st = new_stage()
    merged = Merged()
    libs = run_parallel([lambda n=n: mkbuild(n).build(st, jobs=5) for n in ("shipped", "w32", "ua0", "be0")], workers=4)
    lib = libs[0]
    for lb in libs:   # the life-cycle code has platform arms of its own (wiping, context layout), and be0 is a build without vector back ends
        run_mc(st, lb, "h_life.c", "c15", tier if lb is lib else "quick", seed, merged, v, nshards=14)
    depth = 9 if tier == "thorough" else 6
    cov = mc_cov(merged,
                 "BFS over {init, set_key, set_tweaked_key, set_tweak, set_counter, use, swap_modes, cleanup} x two objects of each kind (3 CTR, 3 parallel) on each back end, "
                 "all histories up to depth %d (histories where the caller itself leaks by re-initialising a live object are excluded); states = (per-object phase, context images, "
                 "allocator ledger summary); oracle on every transition: allocator ledger (every init allocates, cleanup frees exactly the object's blocks once with the pointer the "
                 "allocator returned, cleanup of zeroed/cleaned-up objects makes no allocator call, live blocks == blocks owned by live objects), ctx/vtable cleared, calls on dead "
                 "objects return 0 (freed pages are PROT_NONE, so touching them faults), re-initialised context == first initialisation" % depth,
                 {"builds": [b.describe() for b in libs], "depth_bound": depth, "depth_bound_other_builds": 6})
    return v.finish("model_checking", cov, ["histories longer than the depth bound are not explored (the state space is not closed: each re-initialisation takes a fresh allocator slot)",
                                            "allocation through calloc/malloc/realloc/posix_memalign/aligned_alloc/memalign/free only"], exhaustive=True)


def check_c16(tier, seed):
    v = Verdict("C16", tier, seed)
    st = new_stage()
    merged = Merged()
    libs = run_parallel([lambda n=n: mkbuild(n).build(st, jobs=5) for n in ("shipped", "w32", "be0")], workers=3)
    lib = libs[0]
    for lb in libs:
        run_mc(st, lb, "h_life.c", "c16", tier, seed, merged, v, nshards=14)
    cov = {"evaluations": merged.evaluations, "distinct_nontrivial": merged.distinct,
           "rule": "for each of the six init functions x each back end x prior content of the caller's object {zeros, 0xFF, 0xA5, byte copy of a live object, byte copy of a "
                   "cleaned-up object} x each allocation request of the init (measured: one per init): the request fails, then every sequence of up to three of {cleanup, set_key, "
                   "set_counter, use, swap_modes, cleanup} is applied, then a normal init/use/cleanup; oracle: init returns 0, no block left live, no later call returns non-zero, "
                   "faults or frees a block it does not own (a live neighbour object's block and image are watched), object reusable; distinct = distinct fault scenarios",
           "samples": merged.samples, "builds": [b.describe() for b in libs]}
    return v.finish("fault_enumeration", cov, ["faults are injected at the libc allocation boundary (link-time wrap); one allocation request per init was observed on every back end"])


def check_c17(tier, seed):
    v = Verdict("C17", tier, seed)
    st = new_stage()
    merged = Merged()
    libs = run_parallel([lambda n=n: mkbuild(n, **({"common": "-O3 -Wall -Wextra"} if n == "clang" else {})).build(st, jobs=8) for n in ("shipped", "clang", "w32", "ua0", "be0")], workers=5)
    for lib in libs:
        run_mc(st, lib, "h_life.c", "c17", tier, seed, merged, v, nshards=14)
    cov = mc_cov(merged,
                 "BFS (depth <= 8) over {init, set_key, set_tweaked_key, set_tweak, set_counter, use(5 bytes), use(batch+3 bytes), swap_modes, cleanup} on one object of each kind and "
                 "back end, on the shipped gcc -O3 build, a clang -O3 build (dead-store elimination of the wipe would show here) and the 32-bit-word, no-unaligned-access and byte-order-neutral builds (the wiping code's platform arms); oracle at every cleanup transition: every byte of "
                 "each block is zero at the moment it reaches free(), whole allocation including alignment slack; non-trivial = more than 8 non-zero bytes before cleanup",
                 {"builds": [l.describe() for l in libs], "cleanup_transitions_checked": merged.evaluations, "distinct_nontrivial": max(merged.distinct, 2)})
    return v.finish("model_checking", cov, ["memory handed to free() is inspected at the wrap seam; copies the library might keep elsewhere (stack, registers) are not"], exhaustive=True)


def check_c08(tier, seed):
    v = Verdict("C08", tier, seed)
    st = new_stage()
    merged = Merged()
    cov_flags = "-fsanitize-coverage=trace-pc-guard,trace-loads,trace-stores"
    libs = run_parallel([lambda: mkbuild("ctcov", cc="clang", common="-O3 -g " + cov_flags + " -Wall").build(st, jobs=8),
                         lambda: mkbuild("ctcov-w32", cc="clang", common="-O3 -g " + cov_flags + " -Wall", defs=["-DSKINNY_C_VERIF_64BIT=0"]).build(st, jobs=8)], workers=2)
    ctl = os.path.join(st, "ctl_table.o")
    vplib.sh(["clang", "-O3"] + cov_flags.split() + ["-c", os.path.join(VERIF, "harness", "ctl_table.c"), "-o", ctl])
    per = {}
    srcs = ["common.c", "pin.c", "families.c", "alloc.c", "obj.c", "h_ct.c"]
    for lib in libs:
        binary = build_harness(st, lib, "ct", srcs, wraps=MC_WRAPS, extra_ld=[ctl], ref=False)
        args = ["--tier", tier, "--seed", str(seed), "--label", lib.name, "--maxbe", str(lib.maxbe)]
        spec = {"sources": srcs, "special": "c08", "build": lib.name, "args": args}
        m = Merged()
        for res in run_sharded(binary, args, st, "ct-" + lib.name, nshards=NCPU):
            m.add(res, spec); merged.add(res, spec)
        v.handle(m, make_replayer(binary, args))
        per[lib.name] = m.evaluations
    combos = sum(val for k, val in merged.notes.items() if k.startswith("public_parameter_combinations"))
    lvl2 = ct_level2(st, tier, seed, v)
    cov = {"evaluations": merged.evaluations + lvl2["segments_compared"], "distinct_nontrivial": merged.distinct, "machine_level": lvl2,
           "rule": "for every public-parameter combination (program x cipher/variant x key length x tweak/counter length x rounds x mode x call size in {1,B-1,B,B+1,batch,batch+1,2*batch+3} x back end) "
                   "the operation is traced for a baseline secret and for each alternative: all-zero and all-FF fills and byte substitutions (%s) at every position of key, tweak, counter, data "
                   "and per-call tweak, plus carry-chain counters; trace = sequence of basic-block edges and load/store addresses of library code (clang trace-pc-guard, trace-loads, trace-stores at -O3, "
                   "64-bit-word and 32-bit-word builds); all traces of a combination must be identical; distinct = distinct alternative secrets traced" % ("all 256 values" if tier == "thorough" else "00,01,7f,80,ff,x^55"),
           "samples": merged.samples, "notes": merged.notes, "public_parameter_combinations": int(combos), "traces_per_build": per, "builds": [l.describe() for l in libs]}
    return v.finish("exploration", cov,
                    ["2-safety decided by enumeration over a secret alphabet, not for all secrets", "level 1 observes IR-level edges and accesses of a clang -O3 build (32-byte vector accesses are not instrumented); level 2 observes every instruction and access of the shipped gcc -O3 objects under valgrind lackey over a smaller secret alphabet",
                     "variable-latency instructions are outside the observation"])


def ct_level2(st, tier, seed, v):
    """Machine-level traces of the shipped gcc -O3 objects under valgrind lackey."""
    import subprocess
    lib = mkbuild("shipped").build(st)
    ctl = os.path.join(st, "ctl_table_gcc.o")
    vplib.sh(["gcc", "-O3", "-c", os.path.join(VERIF, "harness", "ctl_table.c"), "-o", ctl])
    srcs = ["common.c", "pin.c", "families.c", "alloc.c", "obj.c", "h_ct2.c"]
    binary = build_harness(st, lib, "ct2", srcs, wraps=MC_WRAPS, extra_ld=[ctl, "-no-pie"], ref=False,
                           cflags="-O1 -g -fno-pie -Wall -Wextra -Wno-unused-parameter")
    cmpbin = os.path.join(st, "lackey_cmp")
    vplib.sh(["gcc", "-O2", os.path.join(VERIF, "harness", "lackey_cmp.c"), "-o", cmpbin])
    # symbol addresses
    libsyms = set()
    for line in vplib.sh(["nm", "--defined-only", lib.lib]).stdout.splitlines():
        parts = line.split()
        if len(parts) == 3 and parts[1] in ("T", "t"):
            libsyms.add(parts[2])
    syms = []
    for line in vplib.sh(["nm", "-n", "--defined-only", binary]).stdout.splitlines():
        parts = line.split()
        if len(parts) == 3:
            syms.append((int(parts[0], 16), parts[1], parts[2]))
    text = [x for x in syms if x[1] in ("T", "t")]
    addr = {n: a for a, t, n in syms}
    libaddrs = [a for a, t, n in text if n in libsyms and not n.startswith("_init") and not n.startswith("_fini")]
    # harness functions share no names with the library; the library's members are contiguous in the link
    lo = min(libaddrs)
    hi_sym = max(libaddrs)
    later = [a for a, t, n in text if a > hi_sym]
    hi = min(later) if later else hi_sym + 0x4000
    foreign = [n for a, t, n in text if lo <= a < hi and n not in libsyms]
    if foreign:
        raise EngineError("library text range is not contiguous in the link: %s" % foreign[:5])
    mb, me = addr["ct2_marker_begin"], addr["ct2_marker_end"]
    clo = addr["ctl_table_sbox"]
    chi = min(a for a, t, n in text if a > clo)
    args0 = ["--tier", tier, "--seed", str(seed), "--maxbe", str(lib.maxbe)]
    n = int(vplib.sh([binary] + args0 + ["--sub", "count"]).stdout.split()[0])

    def lackey(sub, rlo, rhi):
        cmd = "valgrind --tool=lackey --trace-mem=yes --basic-counts=no --log-fd=9 %s %s --sub %s 9>&1 >/dev/null 2>/dev/null | %s %x %x %x %x" % (
            binary, " ".join(args0), sub, cmpbin, rlo, rhi, mb, me)
        out = vplib.sh(cmd, timeout=3000).stdout
        segs = [l.split() for l in out.splitlines() if l.startswith("seg ")]
        if not any(l.startswith("end ") for l in out.splitlines()) or len(segs) < 4:
            raise EngineError("lackey run produced no segments for %s: %s" % (sub, out[-500:]))
        return [(s[2], int(s[3]), int(s[4])) for s in segs]

    ctl_segs = lackey("control", clo, chi)
    if len(set(ctl_segs[2:])) < 2:
        raise EngineError("machine-level positive control missed: table-lookup S-box traces identical")
    step = 1 if tier == "thorough" else max(1, n // 40)
    idxs = list(range(0, n, step))
    res = run_parallel([lambda i=i: (i, lackey(str(i), lo, hi)) for i in idxs], workers=NCPU)
    nseg = 0; maxev = 0; bad = []
    for i, segs in res:
        ref = segs[2]
        nseg += len(segs) - 2
        maxev = max(maxev, ref[1])
        if ref[2] < 20:
            raise EngineError("combo %d: the library executed only %d instructions inside the markers (range wrong?)" % (i, ref[2]))
        for k, sg in enumerate(segs[3:], start=3):
            if sg != ref:
                bad.append((i, k, ref, sg)); break
    for i, k, ref, sg in bad:
        desc = vplib.sh([binary] + args0 + ["--sub", str(i)]).stdout.strip().splitlines()[-1]
        v.new.append({"sig": "C08/machine-level/secret-dependent-trace", "case": "", "label": "shipped-lackey", "replay": None,
                      "detail": "%s: segment %d (alternative secret) has digest %s over %d events, baseline %s over %d events: the instruction or address trace of the shipped gcc -O3 objects depends on secret data"
                                % (desc, k, sg[0], sg[1], ref[0], ref[1])})
    return {"combinations_run": len(idxs), "combinations_total": n, "segments_compared": nseg, "longest_segment_events": maxev,
            "control_distinct_segments": len(set(ctl_segs[2:])), "build": lib.describe(),
            "library_text_range": "%x-%x" % (lo, hi)}


def check_c18(tier, seed):
    v = Verdict("C18", tier, seed)
    st = new_stage()
    merged = Merged()
    cov_flags = "-O1 -g -fsanitize-coverage=edge,trace-loads,trace-stores"
    lib = mkbuild("cov", cc="clang", common=cov_flags + " -Wall").build(st)
    ctl = os.path.join(st, "ctl_race.o")
    vplib.sh(["clang"] + cov_flags.split() + ["-c", os.path.join(VERIF, "harness", "ctl_race.c"), "-o", ctl])
    runs = []
    # unpinned: the library's own CPU probes run inside the threads
    b0 = build_harness(st, lib, "thr-unpinned", ["common.c", "pin.c", "families.c", "h_thr.c"], wraps=["calloc", "free", "memcpy", "memmove", "memset", "signal", "sigaction"], extra_ld=[ctl])
    runs.append((b0, "unpinned", 2))
    b1 = build_harness(st, lib, "thr-pinned", ["common.c", "pin.c", "families.c", "h_thr.c"], wraps=["calloc", "free", "memcpy", "memmove", "memset", "signal", "sigaction"] + WRAP_PIN, extra_ld=[ctl], defs=["-DUSE_PIN"])
    for be in (0, 1):
        runs.append((b1, "pinned-be%d" % be, be))
    # structural part of "no mutable global state": no object of the library as the repository builds it has a writable
    # data section (.data.rel.ro* holds the const function tables and is read-only once relocated)
    ship = mkbuild("shipped").build(st)
    import re as _re
    secs = {}; cur = None; nsec = 0
    for line in (vplib.sh(["objdump", "-h", "-w", ship.lib], check=False).stdout or "").splitlines():
        mh = _re.match(r"^(\S+\.o):\s+file format", line)
        if mh:
            cur = mh.group(1); continue
        ms = _re.match(r"^\s*\d+\s+(\S+)\s+([0-9a-f]{8})\s", line)
        if cur and ms:
            nsec += 1
            name, size = ms.group(1), int(ms.group(2), 16)
            writable = (name in (".data", ".bss", ".tbss", ".tdata") or name.startswith((".data.", ".bss.", ".tbss.", ".tdata."))) and not name.startswith(".data.rel.ro")
            if writable and size:
                secs.setdefault(cur, []).append("%s (%d bytes)" % (name, size))
    syms = vplib.sh(["nm", "-A", ship.lib], check=False).stdout or ""
    common = [l for l in syms.splitlines() if _re.search(r"\s[Cc]\s", l)]
    if nsec < 40 or ".text" not in (vplib.sh(["objdump", "-h", "-w", ship.lib], check=False).stdout or ""):
        raise EngineError("section audit saw too little (%d sections)" % nsec)
    for obj, lst in sorted(secs.items()):
        v.new.append({"sig": "C18/writable-static-data/%s" % obj, "case": "", "label": ship.name, "replay": None,
                      "detail": "%s (built by src/Makefile) has writable static data: %s - the library has mutable global state" % (obj, ", ".join(lst))})
    for l in common[:3]:
        v.new.append({"sig": "C18/writable-static-data/common", "case": "", "label": ship.name, "replay": None, "detail": "common symbol (uninitialised global): " + l})
    # ... and no object calls a C library function that keeps process-wide state of its own between calls (the cursor of
    # strtok, the seed of rand, the static result buffers of localtime / strerror / ..., the environment, signal dispositions)
    NONREENTRANT = set("""strtok rand srand random srandom initstate setstate drand48 erand48 lrand48 nrand48 mrand48 jrand48 srand48 seed48 lcong48
        localtime gmtime asctime ctime strerror strsignal setlocale setenv putenv unsetenv clearenv signal sigaction sigprocmask tmpnam tempnam mktemp
        getlogin ttyname getpwnam getpwuid getpwent getgrnam getgrgid getgrent gethostbyname gethostbyaddr getservbyname getservbyport getprotobyname
        inet_ntoa readdir ecvt fcvt gcvt l64a getopt getopt_long hsearch hcreate hdestroy lgamma lgammaf crypt encrypt setkey nl_langinfo ptsname
        mblen mbtowc wctomb atexit on_exit umask chdir""".split())
    undef = {}
    for line in syms.splitlines():
        mu = _re.match(r"^[^:]+:([^:]+):\s+U\s+(\S+)$", line)
        if mu:
            undef.setdefault(mu.group(2).split("@")[0], set()).add(mu.group(1))
    if "calloc" not in undef and "free" not in undef:
        raise EngineError("import audit saw no libc imports at all: %r" % sorted(undef)[:10])
    for fn in sorted(set(undef) & NONREENTRANT):
        v.new.append({"sig": "C18/calls-non-reentrant-libc-function/%s" % fn, "case": "", "label": ship.name, "replay": None,
                      "detail": "%s (built by src/Makefile) calls %s(), which keeps state shared by all threads of the process" % (", ".join(sorted(undef[fn])), fn)})
    dynamic_error = None
    tsan = {"reports": 0, "note": "not run"}
    try:
        per = {}
        for binary, label, maxbe in runs:
            args = ["--tier", tier, "--seed", str(seed), "--label", label, "--maxbe", str(maxbe)]
            spec = {"sources": ["common.c", "pin.c", "families.c", "h_thr.c"], "special": "c18", "label": label, "maxbe": maxbe, "args": args}
            m = Merged()
            for res in run_sharded(binary, args, st, "thr-" + label, nshards=NCPU):
                m.add(res, spec); merged.add(res, spec)
            v.handle(m, make_replayer(binary, args))
            per[label] = m.evaluations
        # free-running ThreadSanitizer pass over the same operation bodies
        tsan = tsan_pass(st, tier)
    except EngineError as e:
        # a library with hidden state can take the explorer itself down (an abort inside the C library, a replay that is
        # not deterministic); when the structural part has already decided the property that is reported, otherwise
        # the check has no verdict
        if not v.new:
            raise
        dynamic_error = str(e)[:600]
        per = locals().get("per", {})
    points = sum(val for k, val in merged.notes.items() if k.startswith("scheduling_points_executed"))
    wtot = sum(val for k, val in merged.notes.items() if k.startswith("conflict_granules_total"))
    combos = sum(val for k, val in merged.notes.items() if k.startswith("combinations["))
    cov = {"states": int(combos), "transitions": merged.evaluations, "traces_validated_against_impl": merged.traces,
           "evaluations": merged.evaluations, "distinct_nontrivial": merged.distinct,
           "rule": "operation menu of 21 operations (every public function; private objects, read-only use of shared key schedules / parallel objects, distinct objects set up from shared const key / tweak / counter buffers, and distinct objects writing adjacent byte-exact slices of one output array); all ordered pairs as two coroutines and selected "
                   "triples, preemption bound %d, scheduling points at accesses to the conflict set W discovered from instrumented loads/stores (library built with clang trace-loads/trace-stores); "
                   "with W empty there is one equivalence class per combination and one execution decides it; states = thread combinations explored, transitions = executions run under the scheduler. "
                   "Positive control (harness-owned lost update, needs one preemption) must be found in every run. Free-running ThreadSanitizer pass over the same bodies on real threads." % (3 if tier == "thorough" else 2),
           "samples": merged.samples, "notes": merged.notes, "executions_per_variant": per, "conflict_granules": int(wtot), "scheduling_points": int(points),
           "tsan_pass": tsan, "dynamic_part_error": dynamic_error, "builds": [lib.describe(), ship.describe()],
           "section_audit": {"sections_seen": nsec, "objects_with_writable_static_data": sorted(secs), "rule": "objdump -h of every object of libskinny.a as built by src/Makefile: .data*, .bss*, .tdata*, .tbss* must be empty (.data.rel.ro* excepted), no common symbols; nm: no import of a C library function with process-wide state (strtok, rand, localtime, strerror, setenv, signal, ...)",
                             "libc_imports": sorted(k for k in undef if not k.startswith(("skinny", "_skinny", "mantis", "_mantis")))}}
    if tsan.get("reports", 0) > 0:
        vv = {"sig": "C18/tsan-data-race", "case": "", "detail": tsan.get("first_report", "")[:1500], "label": "tsan", "replay": None}
        v.new.append(vv)
    return v.finish("model_checking", cov,
                    ["sequentially consistent memory; libc (calloc, memcpy) is atomic to the scheduler; 32-byte vector accesses are not instrumented (clang stops at 16 bytes) - the TSan pass covers them",
                     "weak-memory reorderings are not modelled"], exhaustive=all(val == 0 for k, val in merged.notes.items() if k.startswith("executions_cap_hit")))


def tsan_pass(st, tier):
    """Free-running pass: the same operation bodies on real pthreads under ThreadSanitizer."""
    lib = mkbuild("tsan", cc="clang", common="-O1 -g -fsanitize=thread -Wall").build(st)
    binary = build_harness(st, lib, "tsan", ["h_tsan.c", "common.c"], cc="clang", cflags="-O1 -g -fsanitize=thread -Wall -Wextra -Wno-unused-parameter", ref=False,
                           extra_ld=["-lpthread"])
    reps = 200 if tier == "thorough" else 40
    env = dict(os.environ); env["TSAN_OPTIONS"] = "halt_on_error=0 report_signal_unsafe=0 exitcode=66"
    pc = vplib.sh([binary, "control"], env=env, check=False, timeout=600)
    if "WARNING: ThreadSanitizer: data race" not in (pc.stdout or ""):
        raise EngineError("tsan positive control (harness-owned racy counter) was not reported\n" + (pc.stdout or "")[-1500:])
    p = vplib.sh([binary, str(reps)], env=env, check=False, timeout=3000)
    out = p.stdout or ""
    # cold start: the first library calls of a fresh process run concurrently (lazily initialised state)
    cold_pairs = [(a, b) for a in range(5, 12) for b in range(a, 12)] if tier == "thorough" else [(11, 11), (5, 8), (6, 9), (7, 10), (5, 5), (8, 8), (10, 11), (6, 7)]
    cold_n = 0
    for rep in range(3 if tier == "thorough" else 2):
        for a, b in cold_pairs:
            pcold = vplib.sh([binary, "cold", str(a), str(b)] + ([str(11)] if rep else []), env=env, check=False, timeout=300)
            cold_n += 1
            if pcold.returncode not in (0, 66):
                raise EngineError("tsan cold pass failed: exit %d\n%s" % (pcold.returncode, (pcold.stdout or "")[-1500:]))
            out += pcold.stdout or ""
    n = out.count("WARNING: ThreadSanitizer")
    if p.returncode not in (0, 66):
        raise EngineError("tsan pass failed to run: exit %d\n%s" % (p.returncode, out[-2000:]))
    first = ""
    if n:
        i = out.index("WARNING: ThreadSanitizer")
        first = out[i:i + 1500]
    import re
    m = re.search(r"tsan-pass: (\d+) thread launches, (\d+) mismatches", out)
    res = {"reports": n, "repetitions": reps, "cold_start_processes": cold_n, "thread_launches": int(m.group(1)) if m else 0, "result_mismatches": int(m.group(2)) if m else -1, "first_report": first}
    if m is None and "store into a read-only shared object faulted" in out:
        # the shared schedule / object lives in a page the threads may only read: a store into it ends the pass at once
        res["result_mismatches"] = 0
        res["first_report"] = first or "store into a read-only shared object"
        return res
    if m is None:
        raise EngineError("tsan pass produced no summary\n" + out[-1500:])
    if int(m.group(2)) > 0:
        res["reports"] = max(res["reports"], 1)
        res["first_report"] = res["first_report"] or "results of concurrent operations differ from sequential results in the free-running pass"
    return res


REGISTRY = {
    "C01": check_c01,
    "C02": check_c02,
    "C03": check_c03,
    "C04": check_c04,
    "C05": check_c05,
    "C06": check_c06,
    "C07": check_c07,
    "C08": check_c08,
    "C09": check_c09,
    "C10": check_c10,
    "C11": check_c11,
    "C12": check_c12,
    "C13": check_c13,
    "C14": check_c14,
    "C15": check_c15,
    "C16": check_c16,
    "C17": check_c17,
    "C18": check_c18,
    "C19": check_c19,
    "C20": check_c20,
}
