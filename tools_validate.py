#!/usr/bin/env python3-vt
"""Validates MANIFEST.json and every evidence file against the schemas (dev aid)."""
import json, glob, sys, jsonschema
ok = True
def v(path, schema):
    global ok
    try:
        jsonschema.validate(json.load(open(path)), json.load(open(schema)))
    except Exception as e:
        ok = False
        print("INVALID", path, str(e)[:300])
v('MANIFEST.json', '/root/.vp/MANIFEST.schema.json')
for p in sorted(glob.glob('evidence/*.json')):
    v(p, '/root/.vp/EVIDENCE.schema.json')
print("valid" if ok else "NOT valid")
sys.exit(0 if ok else 1)
