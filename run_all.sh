#!/bin/sh
# usage: run_all.sh [quick|thorough] [ids...]  - runs every registered check in turn (dev aid)
cd "$(dirname "$0")"
TIER="${1:-quick}"; shift 2>/dev/null || true
IDS="$*"
[ -n "$IDS" ] || IDS=$(python3 -c "import json; print(' '.join(c['property_id'] for c in json.load(open('MANIFEST.json'))['checks']))")
rc=0
for id in $IDS; do
    s=$(date +%s)
    if timeout 14400 ./vpcheck "$id" --tier "$TIER" > "/tmp/vp-runall-$id.log" 2>&1; then r=0; else r=$?; rc=1; fi
    e=$(date +%s)
    echo "$id $TIER exit=$r $((e-s))s  $(grep -c '^VIOLATION' /tmp/vp-runall-$id.log) violations  $(grep -c 'KNOWN-FINDING' /tmp/vp-runall-$id.log) known  $(grep 'ENGINE-ERROR' /tmp/vp-runall-$id.log | head -1 | cut -c1-150)"
done
exit $rc
