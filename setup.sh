#!/bin/sh
# One-time setup after a fresh restore (offline): nothing is fetched.  The checks
# build everything they need per run from /repo's working tree; here we only
# verify the toolchain and self-test the reference models.
set -e
cd "$(dirname "$0")"
mkdir -p build evidence replays
for t in gcc clang make rsync python3 valgrind; do
    command -v "$t" >/dev/null || { echo "setup: missing tool $t"; exit 1; }
done
gcc -O2 -Wall -Wextra -DREF_SELFTEST_MAIN -Iref ref/ref_skinny.c ref/ref_mantis.c ref/ref_selftest.c -o build/ref_selftest
./build/ref_selftest
echo "setup ok"
