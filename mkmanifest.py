#!/usr/bin/env python3
"""Regenerates MANIFEST.json from the table below (single source of truth)."""
import json
import os
import subprocess

VERIF = os.path.dirname(os.path.abspath(__file__))

ENUM = "bounded-exhaustive enumeration of structured input families against a reference model (explicit enumeration, no sampling, no solver)"
BFS = "explicit-state BFS over API call histories on the real objects (states merged by context byte image, canon-on-replay), reference model in lock step"

ENGINES = [
    {"name": "dp", "path": "harness/h_dp.c, harness/h_par.c, harness/h_keylen.c, harness/families.c", "serves_properties": ["C01", "C02", "C03", "C04", "C07", "C10", "C14"],
     "kind_free_text": "bounded-exhaustive differential exploration of the real functions against an independent specification model over structured input families, every block count, every key length"},
    {"name": "apimc", "path": "harness/mc.c, harness/alloc.c, harness/obj.c, harness/h_ctr.c, harness/h_sched.c, harness/h_life.c", "serves_properties": ["C03", "C04", "C05", "C06", "C14", "C15", "C16", "C17"],
     "kind_free_text": "explicit-state exploration of API histories on the real objects: BFS, states = histories replayed on fresh objects and merged by context byte image, forked child with crash/hang attribution, page allocator with ledger, guard pages, wipe check and fault injection behind a link-time seam"},
]

# property -> dict(level, text, note, technique, engine, design_ref)
CHECKS = {
    "C01": dict(level="exploration", engine="dp", design_ref="4/C01", technique=ENUM,
                text="Every case of the BG/BYTE/PAIR/BIT(/ADJ) families over key||block is executed on the real set_key + ecb_encrypt/decrypt of all six variants, on the 64-bit-word and the 32-bit-word builds, and compared with an independent specification model that is bound to the six published vectors. The families force every S-box input at every lane, every tweakey byte value at every position and every LFSR/permutation input in round 1 (and in the last inverse round), so a constant or mask error in any of those components is hit deterministically. It is a coverage statement over ~10^6 (quick) / ~10^8 (thorough) cases, not a proof over 2^512 pairs.",
                note="Trusted: ref/ref_skinny.c as the specification (checked at start-up against the published vectors and S-box tables); gcc; the repository Makefile. Inputs outside the families are not covered."),
    "C02": dict(level="exploration", engine="dp", design_ref="4/C02", technique=ENUM,
                text="The same families over key||tweak||block for rounds 5..8 x {encrypt, decrypt schedule} x {tweak stored in the schedule, tweak passed with the call}, plus fresh-schedule and null-tweak cases, on both word-size builds, against an independent MANTIS model bound to the four published vectors in both directions.",
                note="Trusted: ref/ref_mantis.c as the specification; inputs outside the families are not covered."),
    "C03": dict(level="model_checking", engine="apimc", design_ref="4/C03", technique=BFS + "; plus enumeration of round trips over the input families",
                text="The Mantis schedule under {set_key(2 keys x rounds 5..8 x 2 modes), set_tweak, swap_modes} and the Mantis parallel object under {set_key, swap_modes} have finite reachable sets, which are explored to a fixpoint: in every reachable state and on every outgoing transition the schedule image must equal a fresh set_key in the current mode plus the last tweak, and the behaviour must equal the specification in that mode. That decides the mode-switch part for all finite histories over the alphabet. The round-trip part is decided by enumeration: D(E(x)) and E(D(y)) over the structured families through every single-block function and through the parallel functions on every back end for block counts around the batch size.",
                note="Closure is over the stated key/tweak alphabets; round trips over the families only."),
    "C04": dict(level="model_checking", engine="apimc", design_ref="4/C04", technique=BFS,
                text="Closure of the tweakable SKINNY-128/64 schedules (directly, and inside CTR objects of every back end) under set_tweaked_key and set_tweak over a tweak alphabet with every length 1..B and null pointers (thorough: every byte value at every position). Every reachable state x every alphabet element is executed; on each transition the defined schedule image must equal a fresh key plus one set_tweak(last), the round count must be the specified one and encrypt/decrypt of a block family must equal the specification cipher with TK1 = zero-padded last tweak and the tweak-domain constant. Because the reachable set closes, this covers all finite tweak histories over the alphabet. Conformance of fresh schedules is additionally enumerated over tweak||key||block families on both word-size builds.",
                note="Tweaks outside the alphabet are not covered; the tweak-domain constant has no published vector (cross-checked by C19 once built)."),
    "C05": dict(level="model_checking", engine="apimc", design_ref="4/C05", technique=BFS,
                text="BFS over CTR histories {init, set_key | set_tweaked_key (+set_tweak), set_counter, encrypt(len), second set_counter} on real objects of every back end in lock step. States are merged by the context byte image, so every way of cutting a stream into pieces from LENS that reaches the same number of consumed bytes collapses into one state and each piece size is checked from each such state: the exploration covers all cuts over LENS up to 2*batch+B+1 bytes, for counters with carries through every byte, wrap-around, short, null and the post-init default. Oracle: out = in xor E(c+i) from the reference ciphers, return 1, no write past the length, in-place and out-of-place.",
                note="Keys/tweaks/counters outside the alphabets and streams longer than the bound are not covered (keystream state is periodic in the batch)."),
    "C06": dict(level="model_checking", engine="apimc", design_ref="4/C06", technique=BFS + " (oracle: pairwise equality across back ends)",
                text="One object per available back end (generic, 128-bit, 256-bit; pinned through a link-time seam that never exceeds the host CPU) is driven in lock step through a BFS whose alphabet adds what C05 excludes: key / tweaked-key / tweak changes in the middle of a stream with no counter reset, data calls before any key, tweak changes on a plain schedule, calls after cleanup, the invalid-call menu. Every return value and every output byte must agree across back ends. The parallel-ECB half runs all byte counts 0..25 blocks (+1/-1), both directions, and zeroed / unkeyed / cleaned-up / rejected-key / NULL objects in lock step.",
                note="Back ends the host cannot execute (NEON) are outside; the defined CTR regime is decided against the model by C05."),
    "C07": dict(level="exploration", engine="dp", design_ref="4/C07", technique="exhaustive enumeration of block counts and batch byte sweeps against the single-block functions",
                text="Every block count 0..25 x {encrypt, decrypt} x in-place/out-of-place x data families with per-block distinct contents x key configurations x every back end, plus a BYTE sweep through one full batch (every byte value at every position of several lanes), compared block by block with the single-block functions (Mantis: independent tweak per block). Byte counts that are not whole blocks must return 0 and leave the output untouched; parallel_size must be the positive multiple of the block size that belongs to the back end.",
                note="Single-block functions are tied to the specification by C01/C02; counts above 3P+1 not run."),
    "C10": dict(level="exploration", engine="dp", design_ref="4/C10", technique="exhaustive enumeration of key lengths x entry points against the zero-padded key and the reference model",
                text="Every key length 0..64 plus far-out lengths through all ten SKINNY key-setting entry points on every back end (and sizes x rounds x modes through the three Mantis ones), on the shipped, 32-bit-word and -O0 builds. Accepted lengths must give the same schedule image, the same ciphertexts and the specification's result for the same bytes zero-padded to the next primary size, with the stack painted differently before the two calls. Rejected lengths must return 0 with the existing object byte-identical, and the key is a single byte flush against a PROT_NONE page so that rejection has to precede any read.",
                note="Key contents: two fills plus byte sweeps over the bytes beyond the last primary boundary."),
    "C14": dict(level="model_checking", engine="apimc", design_ref="4/C14", technique=BFS + "; plus an enumerated invalid-call menu for schedules and parallel objects",
                text="BFS over valid CTR histories (zeroed handle, initialised, keyed, counter set, mid-stream, cleaned up) with every class of invalid call applied in every reachable state, on every back end: the call must return 0, the handle+context byte image must be identical before and after (which makes every continuation identical), allocator slack must be untouched and nothing may crash (crashes are attributed to the exact history by the forked explorer). Valid calls must return 1 and documented NULL meanings must work. Schedules and parallel objects get the same treatment by enumeration over their (small) state sets.",
                note="Void functions on NULL objects are only demanded where documented. Calls on failed-to-initialise objects are decided by C16."),
    "C15": dict(level="model_checking", engine="apimc", design_ref="4/C15", technique=BFS + " with an allocator ledger oracle",
                text="All histories up to depth 6 (thorough 8) over {init, setup calls, use, cleanup} x two objects of each of the six kinds on each back end. The library's allocator calls go to a page allocator through a link-time seam: the ledger shows that each init allocates, each cleanup frees exactly the object's blocks once with the pointer the allocator returned, cleanup of zeroed / cleaned-up objects makes no allocator call, and live blocks always equal the blocks owned by live objects; freed pages are PROT_NONE so any touch after cleanup faults and is attributed to its history; calls on dead objects must return 0; re-initialised contexts must equal first initialisation.",
                note="Histories beyond the depth bound are not explored; caller-side leaks (init over a live object) are excluded from the alphabet."),
    "C16": dict(level="fault_enumeration", engine="apimc", design_ref="4/C16", technique="exhaustive fault injection at the allocation seam x follow-up call sequences",
                text="For each of the six init functions, each back end and each prior content of the caller's object (zeros, 0xFF, 0xA5, byte copy of a live object, byte copy of a cleaned-up object) every allocation request of the init is made to fail, then every sequence of up to three follow-up calls is applied and the object is re-initialised and used. Init must return 0, leave no block behind, and no later call may fault, return non-zero or free memory it does not own - a live neighbour object whose pointer the stale handle may contain makes a wild free observable.",
                note="One allocation request per init was observed on every back end; faults are injected at the libc boundary."),
    "C17": dict(level="model_checking", engine="apimc", design_ref="4/C17", technique=BFS + " with a wipe check at free()",
                text="BFS (depth <= 8) over set-up and data calls ending in cleanup for each object kind and back end, on the shipped gcc -O3 build and on a clang -O3 build. At the wrapped free() every byte of the block (whole allocation, alignment slack and base pointer included) must be zero; cases count as non-trivial only when the block held key-dependent non-zero bytes before cleanup.",
                note="Only memory handed to free() is inspected."),
}

NOT_YET = "check not built yet in this round (see DESIGN.md section 4 for the plan)"


def main():
    props = [json.loads(l) for l in open(os.path.join(VERIF, "properties.jsonl"))]
    try:
        hook_commits = subprocess.run(["git", "-C", "/repo", "log", "--format=%H %s", "--grep=SKINNY_C_VERIF"],
                                      capture_output=True, text=True).stdout.strip().splitlines()
    except Exception:
        hook_commits = []
    man = {
        "version": 1,
        "setup_cmd": "./setup.sh",
        "hooks": {
            "guard": "SKINNY_C_VERIF",
            "enable": "checks build the library through src/Makefile with COMMON_CFLAGS='-O3 -Wall -Wextra -DSKINNY_C_VERIF [-DSKINNY_C_VERIF_<SWITCH>=<0|1> ...]' on a scratch copy of /repo's working tree",
            "baseline_off_cmd": "./baseline_off.sh",
            "source_commits": [c.split()[0] for c in hook_commits],
            "add_only": True,
        },
        "engines": ENGINES,
        "checks": [],
        "not_applicable": [],
        "notes": "All checks stage /repo's current working tree (override: VERIF_REPO) into a scratch directory, build there, and remove it on exit. Exit 3 / ENGINE-ERROR means the machinery contradicted itself and is never a verdict.",
    }
    for p in props:
        pid = p["id"]
        c = CHECKS.get(pid)
        if not c:
            man["not_applicable"].append({"property_id": pid, "reason": NOT_YET})
            continue
        e = {
            "property_id": pid,
            "quick_cmd": "./vpcheck %s --tier quick" % pid,
            "thorough_cmd": "./vpcheck %s --tier thorough" % pid,
            "evidence_file": "evidence/%s.json" % pid,
            "replay_cmd_template": "./vpcheck %s --replay {path}" % pid,
            "engine": c["engine"],
            "level_claimed": {"category": c["level"], "text": c["text"], "design_ref": c["design_ref"]},
            "level_note": c["note"],
            "technique": c["technique"],
        }
        man["checks"].append(e)
    with open(os.path.join(VERIF, "MANIFEST.json"), "w") as f:
        json.dump(man, f, indent=1)
    print("MANIFEST.json: %d checks, %d not applicable" % (len(man["checks"]), len(man["not_applicable"])))


if __name__ == "__main__":
    main()
