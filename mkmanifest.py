#!/usr/bin/env python3
"""Regenerates MANIFEST.json from the table below (single source of truth)."""
import json
import os
import subprocess

VERIF = os.path.dirname(os.path.abspath(__file__))

ENGINES = [
    {"name": "dp", "path": "harness/h_dp.c", "serves_properties": ["C01", "C02", "C03", "C07", "C10"],
     "kind_free_text": "bounded-exhaustive differential exploration of the real block functions against an independent specification model over structured input families"},
]

# property -> dict(level, text, note, technique, engine, design_ref, thorough)
CHECKS = {
    "C01": dict(level="exploration", engine="dp", design_ref="4/C01",
                technique="bounded-exhaustive enumeration of structured input families against a reference model (explicit enumeration, no sampling, no solver)",
                text="Every case of the BG/BYTE/PAIR/BIT(/ADJ) families over key||block is executed on the real set_key + ecb_encrypt/decrypt of all six variants, on the 64-bit-word and the 32-bit-word builds, and compared with an independent specification model that is bound to the six published vectors. The families force every S-box input at every lane, every tweakey byte value at every position and every LFSR/permutation input in round 1 (and in the last inverse round), so a constant or mask error in any of those components is hit deterministically. It is a coverage statement over ~10^6 (quick) / ~10^8 (thorough) cases, not a proof over 2^512 pairs.",
                note="Trusted: ref/ref_skinny.c as the specification (checked at start-up against the published vectors and S-box tables); gcc; the repository Makefile. Inputs outside the families are not covered."),
    "C02": dict(level="exploration", engine="dp", design_ref="4/C02",
                technique="bounded-exhaustive enumeration of structured input families against a reference model (explicit enumeration, no sampling, no solver)",
                text="The same families over key||tweak||block for rounds 5..8 x {encrypt, decrypt schedule} x {tweak stored in the schedule, tweak passed with the call}, plus fresh-schedule and null-tweak cases, on both word-size builds, against an independent MANTIS model bound to the four published vectors in both directions.",
                note="Trusted: ref/ref_mantis.c as the specification; inputs outside the families are not covered."),
}

NOT_YET = "check not built yet in this round (see DESIGN.md section 4 for the plan)"


def main():
    props = [json.loads(l) for l in open(os.path.join(VERIF, "properties.jsonl"))]
    try:
        hook_commits = subprocess.run(["git", "-C", "/repo", "log", "--format=%H %s", "--grep=SKINNY_C_VERIF"],
                                      capture_output=True, text=True).stdout.strip().splitlines()
    except Exception:
        hook_commits = []
    man = {
        "version": 1,
        "setup_cmd": "./setup.sh",
        "hooks": {
            "guard": "SKINNY_C_VERIF",
            "enable": "checks build the library through src/Makefile with COMMON_CFLAGS='-O3 -Wall -Wextra -DSKINNY_C_VERIF [-DSKINNY_C_VERIF_<SWITCH>=<0|1> ...]' on a scratch copy of /repo's working tree",
            "baseline_off_cmd": "./baseline_off.sh",
            "source_commits": [c.split()[0] for c in hook_commits],
            "add_only": True,
        },
        "engines": ENGINES,
        "checks": [],
        "not_applicable": [],
        "notes": "All checks stage /repo's current working tree (override: VERIF_REPO) into a scratch directory, build there, and remove it on exit. Exit 3 / ENGINE-ERROR means the machinery contradicted itself and is never a verdict.",
    }
    for p in props:
        pid = p["id"]
        c = CHECKS.get(pid)
        if not c:
            man["not_applicable"].append({"property_id": pid, "reason": NOT_YET})
            continue
        e = {
            "property_id": pid,
            "quick_cmd": "./vpcheck %s --tier quick" % pid,
            "thorough_cmd": "./vpcheck %s --tier thorough" % pid,
            "evidence_file": "evidence/%s.json" % pid,
            "replay_cmd_template": "./vpcheck %s --replay {path}" % pid,
            "engine": c["engine"],
            "level_claimed": {"category": c["level"], "text": c["text"], "design_ref": c["design_ref"]},
            "level_note": c["note"],
            "technique": c["technique"],
        }
        man["checks"].append(e)
    with open(os.path.join(VERIF, "MANIFEST.json"), "w") as f:
        json.dump(man, f, indent=1)
    print("MANIFEST.json: %d checks, %d not applicable" % (len(man["checks"]), len(man["not_applicable"])))


if __name__ == "__main__":
    main()
