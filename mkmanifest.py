#!/usr/bin/env python3
"""Regenerates MANIFEST.json from the table below (single source of truth)."""
import json
import os
import subprocess

VERIF = os.path.dirname(os.path.abspath(__file__))

ENUM = "bounded-exhaustive enumeration of structured input families against a reference model (explicit enumeration, no sampling, no solver)"
BFS = "explicit-state BFS over API call histories on the real objects (states merged by context byte image, canon-on-replay), reference model in lock step"

ENGINES = [
    {"name": "dp", "path": "harness/h_dp.c, harness/h_par.c, harness/h_keylen.c, harness/families.c", "serves_properties": ["C01", "C02", "C03", "C04", "C07", "C10", "C14"],
     "kind_free_text": "bounded-exhaustive differential exploration of the real functions against an independent specification model over structured input families, every block count, every key length"},
    {"name": "sched", "path": "harness/h_thr.c, harness/thr_ops.h, harness/h_tsan.c, harness/ctl_race.c", "serves_properties": ["C18"],
     "kind_free_text": "controlled scheduler: coroutine threads, scheduling points at instrumented loads/stores that hit the discovered conflict set, iterative context bounding DFS, cold-start combinations in fresh processes, positive control (lost update), plus a free-running ThreadSanitizer pass"},
    {"name": "ct", "path": "harness/h_ct.c, harness/ct_prog.h, harness/h_ct2.c, harness/lackey_cmp.c, harness/ctl_table.c", "serves_properties": ["C08"],
     "kind_free_text": "2-safety by enumeration: branch/address traces of every public-parameter combination compared across a secret alphabet, at IR level (clang coverage callbacks) and at machine level (valgrind lackey on the shipped objects)"},
    {"name": "buf", "path": "harness/h_buf.c", "serves_properties": ["C09"],
     "kind_free_text": "exhaustive buffer placements (alignments, lengths, overlaps) under valgrind memcheck with byte-exact NOACCESS red zones"},
    {"name": "cfg", "path": "harness/h_cfg.c", "serves_properties": ["C12"], "kind_free_text": "one deterministic battery run in every build configuration of the cross product; section digests must agree"},
    {"name": "cpu", "path": "harness/h_cpu.c, harness/tramp.S", "serves_properties": ["C13"], "kind_free_text": "enumerated CPU/OS models behind the guarded CPUID seam, and the real CPU under arbitrary caller register/stack contents"},
    {"name": "ard", "path": "harness/h_ard.cpp", "serves_properties": ["C19"], "kind_free_text": "Arduino classes compiled on the host against the C library: families, bounded histories, CTR cut sequences"},
    {"name": "cli", "path": "checks.py (check_c20), harness/h_cli.c", "serves_properties": ["C20"], "kind_free_text": "the example tools as subprocesses against an oracle program making the library calls directly"},
    {"name": "apimc", "path": "harness/mc.c, harness/alloc.c, harness/obj.c, harness/h_ctr.c, harness/h_sched.c, harness/h_life.c", "serves_properties": ["C03", "C04", "C05", "C06", "C14", "C15", "C16", "C17"],
     "kind_free_text": "explicit-state exploration of API histories on the real objects: BFS, states = histories replayed on fresh objects and merged by context byte image, forked child with crash/hang attribution, page allocator with ledger, guard pages, wipe check and fault injection behind a link-time seam"},
]

# property -> dict(level, text, note, technique, engine, design_ref)
CHECKS = {
    "C01": dict(level="exploration", engine="dp", design_ref="4/C01", technique=ENUM,
                text="Every case of the BG/BYTE/PAIR/BIT(/ADJ) families over key||block is executed on the real set_key + ecb_encrypt/decrypt of all six variants, on the 64-bit-word and the 32-bit-word builds, and compared with an independent specification model that is bound to the six published vectors. The families force every S-box input at every lane, every tweakey byte value at every position and every LFSR/permutation input in round 1 (and in the last inverse round), so a constant or mask error in any of those components is hit deterministically. It is a coverage statement over ~10^6 (quick) / ~10^8 (thorough) cases, not a proof over 2^512 pairs.",
                note="Trusted: ref/ref_skinny.c as the specification (checked at start-up against the published vectors and S-box tables); gcc; the repository Makefile. Inputs outside the families are not covered."),
    "C02": dict(level="exploration", engine="dp", design_ref="4/C02", technique=ENUM,
                text="The same families over key||tweak||block for rounds 5..8 x {encrypt, decrypt schedule} x {tweak stored in the schedule, tweak passed with the call}, plus fresh-schedule and null-tweak cases, on both word-size builds, against an independent MANTIS model bound to the four published vectors in both directions.",
                note="Trusted: ref/ref_mantis.c as the specification; inputs outside the families are not covered."),
    "C03": dict(level="model_checking", engine="apimc", design_ref="4/C03", technique=BFS + "; plus enumeration of round trips over the input families",
                text="The Mantis schedule under {set_key(2 keys x rounds 5..8 x 2 modes), set_tweak, swap_modes} and the Mantis parallel object under {set_key, swap_modes} have finite reachable sets, which are explored to a fixpoint: in every reachable state and on every outgoing transition the schedule image must equal a fresh set_key in the current mode plus the last tweak, and the behaviour must equal the specification in that mode. That decides the mode-switch part for all finite histories over the alphabet. The round-trip part is decided by enumeration: D(E(x)) and E(D(y)) over the structured families through every single-block function and through the parallel functions on every back end for block counts around the batch size.",
                note="Closure is over the stated key/tweak alphabets; round trips over the families only."),
    "C04": dict(level="model_checking", engine="apimc", design_ref="4/C04", technique=BFS,
                text="Closure of the tweakable SKINNY-128/64 schedules (directly, and inside CTR objects of every back end) under set_tweaked_key and set_tweak over a tweak alphabet with every length 1..B and null pointers (thorough: every byte value at every position). Every reachable state x every alphabet element is executed; on each transition the defined schedule image must equal a fresh key plus one set_tweak(last), the round count must be the specified one and encrypt/decrypt of a block family must equal the specification cipher with TK1 = zero-padded last tweak and the tweak-domain constant. Because the reachable set closes, this covers all finite tweak histories over the alphabet. Conformance of fresh schedules is additionally enumerated over tweak||key||block families on both word-size builds.",
                note="Tweaks outside the alphabet are not covered; the tweak-domain constant has no published vector (cross-checked by C19 once built)."),
    "C05": dict(level="model_checking", engine="apimc", design_ref="4/C05", technique=BFS,
                text="BFS over CTR histories {init, set_key | set_tweaked_key (+set_tweak), set_counter, encrypt(len), second set_counter} on real objects of every back end in lock step. States are merged by the context byte image, so every way of cutting a stream into pieces from LENS that reaches the same number of consumed bytes collapses into one state and each piece size is checked from each such state: the exploration covers all cuts over LENS up to 2*batch+B+1 bytes, for counters with carries through every byte, wrap-around, short, null and the post-init default. Oracle: out = in xor E(c+i) from the reference ciphers, return 1, no write past the length, in-place and out-of-place.",
                note="Keys/tweaks/counters outside the alphabets and streams longer than the bound are not covered (keystream state is periodic in the batch)."),
    "C06": dict(level="model_checking", engine="apimc", design_ref="4/C06", technique=BFS + " (oracle: pairwise equality across back ends)",
                text="One object per available back end (generic, 128-bit, 256-bit; pinned through a link-time seam that never exceeds the host CPU) is driven in lock step through a BFS whose alphabet adds what C05 excludes: key / tweaked-key / tweak changes in the middle of a stream with no counter reset, data calls before any key, tweak changes on a plain schedule, calls after cleanup, the invalid-call menu. Every return value and every output byte must agree across back ends. The parallel-ECB half runs all byte counts 0..25 blocks (+1/-1), both directions, and zeroed / unkeyed / cleaned-up / rejected-key / NULL objects in lock step.",
                note="Back ends the host cannot execute (NEON) are outside; the defined CTR regime is decided against the model by C05."),
    "C07": dict(level="exploration", engine="dp", design_ref="4/C07", technique="exhaustive enumeration of block counts and batch byte sweeps against the single-block functions",
                text="Every block count 0..25 x {encrypt, decrypt} x in-place/out-of-place x data families with per-block distinct contents x key configurations x every back end, plus a BYTE sweep through one full batch (every byte value at every position of several lanes), compared block by block with the single-block functions (Mantis: independent tweak per block). Byte counts that are not whole blocks must return 0 and leave the output untouched; parallel_size must be the positive multiple of the block size that belongs to the back end.",
                note="Single-block functions are tied to the specification by C01/C02; counts above 3P+1 not run."),
    "C08": dict(level="exploration", engine="ct", design_ref="4/C08", technique="trace equality (2-safety) decided by exhaustive enumeration over a secret alphabet per public-parameter combination; traces from coverage instrumentation and from valgrind lackey",
                text="For every public-parameter combination (operation program x cipher variant x key / tweak / counter length x rounds x mode x call size around the block and batch sizes x back end) the operation is executed for a baseline secret and for every alternative of the alphabet (zero / all-ones fills and byte substitutions at every position of key, tweak, counter, data and per-call tweak, carry-chain counters). Level 1 records every basic-block edge and every load/store address of library code (clang -O3, 64- and 32-bit word builds) - ~2.4x10^5 traces quick; level 2 records every instruction address and memory access of the shipped gcc -O3 objects under valgrind lackey for a sample of combinations (all of them in the thorough tier). All traces of a combination must be identical. Both levels carry a table-lookup S-box as positive control.",
                note="Secrets outside the alphabet, variable-latency instructions and other compilers are not covered; 32-byte vector accesses are only seen at level 2."),
    "C09": dict(level="exploration", engine="buf", design_ref="4/C09", technique="exhaustive enumeration of buffer placements under valgrind memcheck with NOACCESS red zones (dynamic, no solver)",
                text="Every public function with buffer arguments on every back end, on the shipped gcc -O3 objects under valgrind memcheck: each buffer sits at each alignment offset 0..31 inside a region whose remaining bytes are NOACCESS (byte exact on both sides), so a read or write outside the extent given by the arguments is reported at the faulting instruction; single-block functions run all 32x32 input/output alignments and every overlap offset -B..+B; key, tweak and counter arguments every legal length; bulk calls the LENS lengths with exact aliasing at every offset. Results must equal the aligned, non-overlapping call. A one-byte over-read is the positive control.",
                note="Alignment offsets above 31 and partial overlap of bulk buffers are not run; undefined-value errors are disabled here (C11)."),
    "C11": dict(level="exploration", engine="dp", design_ref="4/C11", technique="enumeration of the C01-C10 histories under MemorySanitizer with explicit shadow tests, plus a stack/object paint differential across -O0/-O3",
                text="The histories of C01, C02, C04 (block level; thorough: the schedule worlds too), C05, C06, C07 and C10, every shard of each in both tiers, are executed (a) in a clang MemorySanitizer build with an explicit shadow test on every output block, key schedule, context image and return value, with caller objects and the stack below each call poisoned, and (b) in the shipped -O3 and an -O0 build twice each with the stack below every call and the caller's objects painted 0x00 vs 0xA5; the per-result-kind digests of everything returned must be bit-identical across the four runs.",
                note="Only the paths in those histories; heap blocks come from calloc in every back end."),
    "C12": dict(level="exploration", engine="cfg", design_ref="4/C12", technique="exhaustive enumeration of the build-configuration cross product x a fixed battery; digest equality",
                text="Configurations = {64,32}-bit word paths x {unaligned fast paths, byte-wise} x {SIMD 128+256, 128 only, none, none + byte-order-neutral scalar code} x {gcc, clang} x {-O0..-O3}: all 128 in the thorough tier, a 13-build covering subset (every switch value and every switch/compiler pair) in the quick tier, each built through the repository Makefile using the guarded platform-switch hook. One deterministic battery (block families for all variants incl. tweakable and Mantis, CTR streams with carries, short counters, irregular cuts and mid-stream re-key, parallel ECB for every count, every key length) runs pinned to each back end of each build; every section digest must be identical across all runs.",
                note="Real big-endian / 32-bit hosts and NEON are out of reach; the reference configuration is tied to the specification by C01-C07."),
    "C13": dict(level="model_checking", engine="cpu", design_ref="4/C13", technique="exhaustive enumeration of environment (CPU/OS model) states behind a guarded CPUID/XGETBV seam, executed on the real init functions",
                text="14,336 consistent CPU/OS model states (max basic leaf x out-of-range-leaf behaviour x SSE2 x OSXSAVE x AVX x XCR0 x AVX2 x leaf-7 sub-leaf-1 contents x junk in all other feature bits) are answered through the guarded seam; every state x each of the six init functions runs twice with different caller registers and stack paint, on builds with and without the 256-bit back end: the selected vtable / function table and parallel_size must be the widest back end that is compiled in and usable in that state (never wider). On the real CPU the six inits run under 14 caller-register/stack patterns x 3 through an assembly trampoline against the compiler's own CPU detection - this is what exposes a CPUID query that leaves the sub-leaf register as found.",
                note="x86 only; model states needing a back end the host cannot execute are skipped and counted."),
    "C10": dict(level="exploration", engine="dp", design_ref="4/C10", technique="exhaustive enumeration of key lengths x entry points against the zero-padded key and the reference model",
                text="Every key length 0..64 plus far-out lengths through all ten SKINNY key-setting entry points on every back end (and sizes x rounds x modes through the three Mantis ones), on the shipped, 32-bit-word and -O0 builds. Accepted lengths must give the same schedule image, the same ciphertexts and the specification's result for the same bytes zero-padded to the next primary size, with the stack painted differently before the two calls. Rejected lengths must return 0 with the existing object byte-identical, and the key is a single byte flush against a PROT_NONE page so that rejection has to precede any read.",
                note="Key contents: two fills plus byte sweeps over the bytes beyond the last primary boundary."),
    "C14": dict(level="model_checking", engine="apimc", design_ref="4/C14", technique=BFS + "; plus an enumerated invalid-call menu for schedules and parallel objects",
                text="BFS over valid CTR histories (zeroed handle, initialised, keyed, counter set, mid-stream, cleaned up) with every class of invalid call applied in every reachable state, on every back end: the call must return 0, the handle+context byte image must be identical before and after (which makes every continuation identical), allocator slack must be untouched and nothing may crash (crashes are attributed to the exact history by the forked explorer). Valid calls must return 1 and documented NULL meanings must work. Schedules and parallel objects get the same treatment by enumeration over their (small) state sets.",
                note="Void functions on NULL objects are only demanded where documented. Calls on failed-to-initialise objects are decided by C16."),
    "C15": dict(level="model_checking", engine="apimc", design_ref="4/C15", technique=BFS + " with an allocator ledger oracle",
                text="All histories up to depth 6 (thorough 8) over {init, setup calls, use, cleanup} x two objects of each of the six kinds on each back end. The library's allocator calls go to a page allocator through a link-time seam: the ledger shows that each init allocates, each cleanup frees exactly the object's blocks once with the pointer the allocator returned, cleanup of zeroed / cleaned-up objects makes no allocator call, and live blocks always equal the blocks owned by live objects; freed pages are PROT_NONE so any touch after cleanup faults and is attributed to its history; calls on dead objects must return 0; re-initialised contexts must equal first initialisation.",
                note="Histories beyond the depth bound are not explored; caller-side leaks (init over a live object) are excluded from the alphabet."),
    "C16": dict(level="fault_enumeration", engine="apimc", design_ref="4/C16", technique="exhaustive fault injection at the allocation seam x follow-up call sequences",
                text="For each of the six init functions, each back end and each prior content of the caller's object (zeros, 0xFF, 0xA5, byte copy of a live object, byte copy of a cleaned-up object) every allocation request of the init is made to fail, then every sequence of up to three follow-up calls is applied and the object is re-initialised and used. Init must return 0, leave no block behind, and no later call may fault, return non-zero or free memory it does not own - a live neighbour object whose pointer the stale handle may contain makes a wild free observable.",
                note="One allocation request per init was observed on every back end; faults are injected at the libc boundary."),
    "C17": dict(level="model_checking", engine="apimc", design_ref="4/C17", technique=BFS + " with a wipe check at free()",
                text="BFS (depth <= 8) over set-up and data calls ending in cleanup for each object kind and back end, on the shipped gcc -O3 build and on a clang -O3 build. At the wrapped free() every byte of the block (whole allocation, alignment slack and base pointer included) must be zero; cases count as non-trivial only when the block held key-dependent non-zero bytes before cleanup.",
                note="Only memory handed to free() is inspected."),
    "C18": dict(level="model_checking", engine="sched", design_ref="4/C18", technique="stateless exploration of thread interleavings under a controlled scheduler with a preemption bound (iterative context bounding), scheduling points at instrumented shared accesses",
                text="18 operations (every public function; private objects and read-only use of shared key schedules / parallel objects) run as coroutines in all ordered pairs and selected triples. The library is instrumented (clang trace-loads/stores); a discovery execution classifies every access and builds the conflict set W (granules written by one thread and touched by another); every schedule with <= 2 (thorough 3) preemptions at accesses to W is executed and each thread's results must equal its sequential results; a store to static memory or into an object passed as pointer-to-const is a violation by itself. Each combination also runs cold, in a fresh process whose first library calls happen inside the threads, so lazily initialised state is caught. With W empty (the unchanged tree) one execution decides a combination. A harness-owned lost update must be found in every run, and the same bodies run free on pthreads under ThreadSanitizer (incl. cold-start processes and a racy control).",
                note="Sequentially consistent memory; libc calls are atomic to the scheduler; 32-byte vector accesses are not instrumented (TSan pass covers them)."),
    "C19": dict(level="exploration", engine="ard", design_ref="4/C19", technique="bounded-exhaustive enumeration of input families, operation histories and cut sequences against the C library",
                text="The Arduino sources compile unchanged with the host g++ (portable path). All 11 block-cipher classes run the BG/BYTE/PAIR/BIT families against the C library; the four tweakable classes and Mantis8 run every history up to depth 4 (thorough 5) over {setKey, setTweak (values, NULL, wrong length), swapModes, clear+setKey, setKey(wrong length)} against the C library keyed afresh with the last key / tweak / mode; CTR<T> over the five Skinny-128 classes runs every sequence of up to 3 (4) encrypt lengths from LENS(16) for IVs with carries through every byte in lock step with skinny128_ctr_* on the generic back end.",
                note="The AVR inline-assembly path is out of reach; use before the first setKey has no C counterpart; setCounterSize (before setKey, between setKey and setIV, after setIV; sizes 16, 15, 4, 2, 1) is checked against the C block function under the documented increment rule."),
    "C20": dict(level="exploration", engine="cli", design_ref="4/C20", technique="enumeration of tool invocations (file lengths x key/counter/tweak lengths x modes) against direct library calls",
                text="The three tools built by examples/Makefile run as subprocesses over file lengths around the block size and the 1024-byte I/O chunk x both block sizes x legal key lengths (incl. in-between) x absent / full / short counters and tweaks x encrypt / -d; outputs must be byte-identical to a separate oracle program that makes the library calls directly, and running the tool again must restore the input (whole blocks for ecb / tweak). An invalid-option menu (39 invocations) must exit non-zero and create no output file.",
                note="Mid-file I/O errors are not injected."),
}

NOT_YET = "check not built yet in this round (see DESIGN.md section 4 for the plan)"


PRELUDE = " Every harness process first makes one of three call sequences (none / tweakable family first / plain family first, by shard) so that lazily built global state cannot hide behind one process history; the schedule or object passed as const to a data call is compared with its image before the call."
ARGS = " Key, tweak and counter arguments of the object setters are scratch copies that are overwritten as soon as the call returns (the library has to have copied what it needs)."
PRIOR = " Handles are painted (poisoned under MemorySanitizer) before every init and schedule objects hold a pattern before their first key-setting call."
EXTRA = {
    "C01": PRELUDE + " Keys are handed over in a buffer of their own followed by a fixed non-zero pattern; the byte copies of schedules sit at every natural alignment within 32 bytes and, every fourth one, flush against an unreadable page (before or after); a fatal signal inside a case is that case's violation. Builds: shipped, 32-bit words, no unaligned access, byte-order-neutral (no SIMD), clang.", "C02": PRELUDE + " Every per-call-tweak case is repeated with one buffer as tweak, input and output. Builds: shipped, 32-bit words, no unaligned access, byte-order-neutral (no SIMD), clang.",
    "C03": PRELUDE + PRIOR  + ARGS + " The Mantis closure world also has a const-use operation (ecb_crypt_tweaked with its own tweak); parallel round trips are repeated in place; the closure and the round trips also run on the 32-bit-word, no-unaligned-access, byte-order-neutral and clang builds.",
    "C04": PRELUDE + PRIOR + " CTR kinds include data calls between tweak changes; refused re-keys (too short, too long, the plain API's three-block size) are operations of the worlds; the conformance families and the (quick-alphabet) closure also run on the byte-order-neutral, no-unaligned-access and clang builds.",
    "C05": PRELUDE + PRIOR + " A later set_counter (after data or straight after a first one) is explored with the NULL forms and a short counter as well. Thorough: a length across 2^16 bytes, and one in-place request of more than 2^32 bytes per cipher (sampled blocks against the model). A re-key straight after a tweak change, before any data, is in the alphabet." + ARGS + " Builds: shipped, 32-bit words, no unaligned access, byte-order-neutral (no SIMD), clang.", "C06": PRELUDE + PRIOR + ARGS + " Builds: shipped, 32-bit words, no unaligned access, clang; invalid lengths equal to a legal one modulo 2^8 / 2^16 are operations of the worlds.",
    "C07": PRELUDE + PRIOR  + ARGS + " Data families other than the first run on buffers whose offsets from a 32-byte boundary walk through 0..15; Mantis tweak arrays come from six structured families; in two of the data families the input (when it is not also the output) and the tweak array end, respectively begin, at an unreadable page; counts up to 8193 blocks (across 2^16 bytes); also on the 32-bit-word, no-unaligned-access and clang builds. Thorough: one in-place request of 2^32 bytes + 9 blocks per entry point and vector back end, sampled blocks against the single-block functions (about 4.3 GiB per cipher).",
    "C09": " The second request of a stream (first request ending block-aligned or not inside a batch; second request up to almost four batches, both buffers 32-byte aligned among the placements) is placed between red zones as well; regions that hold pure inputs (key, tweak, counter, data that is not also the output, key schedules of the single-block calls) are read-only for the duration of the call, with the red zones re-established after the protection change; the Mantis per-call tweak may be the input block itself (also in place), the per-block tweak array the input array; a faulting call is attributed to its case by the forked runner; every reported placement is re-executed alone under memcheck before it is printed.",
    "C10": PRELUDE + " Wrap-around length candidates (2^32 - v, 2^k + multiples of the block for k >= 24, 2^k + every length up to one past the longest key for k = 8..23) are included; prior objects carry a non-zero tweak.",
    "C11": " The C06 worlds (re-keying and tweak changes outside the stream regime) and the allocation-failure histories of C16 are part of the histories; heap blocks the library did not request cleared are filled with the paint pattern of the run and poisoned under MemorySanitizer; canonical state images carry a signature of which bytes MemorySanitizer holds uninitialised, so a state whose bytes are right by accident is not merged with the clean one; every reported case is re-executed alone before it is printed.",
    "C12": " The driver takes COMMON_CFLAGS, STDC_CFLAGS, VEC128_CFLAGS and VEC256_CFLAGS from the tree's own options.mak for the shipped configuration; the parallel section puts buffers at odd offsets and uses structured tweak arrays, the CTR section seeks inside a buffered batch; a battery that dies in one configuration is a violation.",
    "C13": " The caller's object is painted with the pattern of the case before each init, the builds include one with no SIMD back end compiled in and one with only the 128-bit back ends compiled out (real CPU and model), an init that dies is attributed to its case, both entries of the parallel function tables are identified, the first and second allocation request of every init are refused on the real CPU (an init that still succeeds must have made the right selection), and every instruction of every object of the library as src/Makefile and options.mak build it is decoded: only the two 256-bit back-end objects may contain instructions beyond the x86-64 baseline with SSE2.",
    "C14": PRELUDE + PRIOR  + ARGS + " Invalid classes include combinations (NULL pointer together with an out-of-range length), Mantis round counts equal to a legal one modulo 32 and modulo 2^31, ragged parallel sizes containing whole batches in both directions and, for Mantis parallel objects, both directions for the keyed object and for the invalid call; lengths equal to a legal one modulo 2^8 / 2^16; decrypt calls on zeroed and cleaned-up objects; the CTR worlds include the NULL counter forms as valid calls that must return 1.",
    "C15": PRELUDE + PRIOR  + ARGS + " The alphabet includes a zero-length request and an init whose first allocation request is refused (the object is dead afterwards), a key-setting call that must be refused, and the decrypt entry point of the Skinny parallel objects. Builds: shipped (full depth), 32-bit words, no unaligned access, byte-order-neutral (depth 6).",
    "C16": PRELUDE + ARGS + " The object of the failing init sits between canary bytes with exactly the library's handle type as its extent; the follow-up menu has both data entry points; builds: shipped, 32-bit words, byte-order-neutral.", "C17": PRELUDE + PRIOR  + ARGS + " Re-keying with the shortest key after the longest and a key-setting call that must be refused are part of the alphabet; a block that cleanup keeps allocated must not hold more than 8 non-zero bytes; builds: shipped, clang, 32-bit words, no unaligned access, byte-order-neutral.",
    "C18": " Operations on private objects use in-between key lengths as well as the standard ones; two operations write adjacent byte-exact slices of one array from distinct objects, one sets up distinct objects from shared const key / tweak / counter buffers; signal()/sigaction() calls from inside an operation are reported (link-time wrap); structural part: no object of libskinny.a as built by src/Makefile has a non-empty writable data section (.data.rel.ro* excepted).",
    "C19": " Every case and every history runs on a fresh object; CTR sequences include a mid-stream setKey, a mid-stream setIV and setCounterSize at three places of the call order; wrong lengths include the right one plus 2^8, 2^16 and 2^32.",
    "C20": " Option order rotates with the case index and every second case finds its output paths already existing with more bytes than the tool will write; a tool that exits 0 without an output file is a violation.",
}


def main():
    props = [json.loads(l) for l in open(os.path.join(VERIF, "properties.jsonl"))]
    try:
        hook_commits = subprocess.run(["git", "-C", "/repo", "log", "--format=%H %s", "--grep=SKINNY_C_VERIF"],
                                      capture_output=True, text=True).stdout.strip().splitlines()
    except Exception:
        hook_commits = []
    man = {
        "version": 1,
        "setup_cmd": "./setup.sh",
        "hooks": {
            "guard": "SKINNY_C_VERIF",
            "enable": "checks build the library through src/Makefile with COMMON_CFLAGS='-O3 -Wall -Wextra -DSKINNY_C_VERIF [-DSKINNY_C_VERIF_<SWITCH>=<0|1> ...]' on a scratch copy of /repo's working tree",
            "baseline_off_cmd": "./baseline_off.sh",
            "source_commits": [c.split()[0] for c in hook_commits],
            "add_only": True,
        },
        "engines": ENGINES,
        "checks": [],
        "not_applicable": [],
        "notes": "All checks stage /repo's current working tree (override: VERIF_REPO) into a scratch directory, build there, and remove it on exit. Exit 3 / ENGINE-ERROR means the machinery contradicted itself and is never a verdict.",
    }
    for p in props:
        pid = p["id"]
        c = CHECKS.get(pid)
        if not c:
            man["not_applicable"].append({"property_id": pid, "reason": NOT_YET})
            continue
        c = dict(c)
        c["text"] = c["text"] + EXTRA.get(pid, "")
        e = {
            "property_id": pid,
            "quick_cmd": "./vpcheck %s --tier quick" % pid,
            "thorough_cmd": "./vpcheck %s --tier thorough" % pid,
            "evidence_file": "evidence/%s.json" % pid,
            "replay_cmd_template": "./vpcheck %s --replay {path}" % pid,
            "engine": c["engine"],
            "level_claimed": {"category": c["level"], "text": c["text"], "design_ref": c["design_ref"]},
            "level_note": c["note"],
            "technique": c["technique"],
        }
        man["checks"].append(e)
    with open(os.path.join(VERIF, "MANIFEST.json"), "w") as f:
        json.dump(man, f, indent=1)
    print("MANIFEST.json: %d checks, %d not applicable" % (len(man["checks"]), len(man["not_applicable"])))


if __name__ == "__main__":
    main()
