#!/bin/sh
# usage: tools_seed.sh <property-id> <check-id>...   (dev aid)
# Confirms a sub-agent's seeded change in its scratch worktree /tmp/seed-<id>:
#   demo fails with the change, passes without it, 30 baseline tests pass with it;
# then runs the named checks against it and files it under /verif/seeded/<id>/.
set -u
ID="$1"; shift
W="${SEED_PREFIX:-/tmp/seed-}$ID"; S="$W/seed"; SUF="${SEED_SUFFIX:-}"
[ -f "$S/patch.diff" ] || { echo "no patch in $S"; exit 2; }
cd "$W"
git apply --check -R "$S/patch.diff" 2>/dev/null || { echo "worktree does not have the change applied; applying"; git checkout -q -- . ; git apply "$S/patch.diff" || exit 2; }
sh "$S/run_demo.sh" > /tmp/seed-$ID.demo-with.log 2>&1; with=$?
git apply -R "$S/patch.diff" || exit 2
sh "$S/run_demo.sh" > /tmp/seed-$ID.demo-without.log 2>&1; without=$?
git apply "$S/patch.diff" || exit 2
make -C "$W" -s clean >/dev/null 2>&1
base=$(VERIF_REPO="$W" /verif/baseline_off.sh 2>/dev/null | grep -c ": ok")
echo "demo with change: exit $with (want non-zero); without: exit $without (want 0); baseline with change: $base/30"
ran=""
for id in "$@"; do
    if VERIF_REPO="$W" timeout 3000 /verif/vpcheck "$id" > "/tmp/seed-$ID.$id.log" 2>&1; then rc=0; else rc=$?; fi
    n=$(grep -c '^VIOLATION' "/tmp/seed-$ID.$id.log")
    echo "== $id exit $rc: $n violation line(s)"
    grep -A2 '^VIOLATION' "/tmp/seed-$ID.$id.log" | grep 'signature\|detail' | cut -c1-300 | sort | uniq | head -5
    grep 'ENGINE-ERROR' "/tmp/seed-$ID.$id.log" | head -2
    ran="$ran $id:$rc:$n"
done
D="/verif/seeded/$ID$SUF"; mkdir -p "$D"
cp "$S/patch.diff" "$D/patch.diff"
for f in "$S"/*; do case "$(basename "$f")" in patch.diff) ;; *) [ -f "$f" ] && [ "$(stat -c %s "$f")" -lt 200000 ] && file "$f" | grep -qv ELF && cp "$f" "$D/"; esac; done
python3 - "$ID" "$with" "$without" "$base" "$ran" "$SUF" <<'PY'
import json,sys,os
ID,w,wo,base,ran=sys.argv[1:6]
suf=sys.argv[6] if len(sys.argv)>6 else ''
d='/verif/seeded/'+ID+suf
meta_txt=open(d+'/meta.txt').read() if os.path.exists(d+'/meta.txt') else ''
checks=[]
for r in ran.split():
    i,rc,n=r.split(':'); checks.append({"check":i,"exit":int(rc),"violation_lines":int(n),"caught":int(rc)==1})
json.dump({"property":ID,"author":"independent sub-agent (given only the property text and a scratch worktree)",
           "needs_to_manifest":meta_txt[:3000],
           "confirmed":{"demo_exit_with_change":int(w),"demo_exit_without_change":int(wo),"baseline_tests_ok_with_change":int(base)},
           "what_was_run":"tools_seed.sh: seed/run_demo.sh with the change and with it reverted (git apply -R), baseline_off.sh on the changed tree, then the listed checks with VERIF_REPO pointing at the changed worktree",
           "checks":checks},open(d+'/meta.json','w'),indent=1)
PY
echo "filed under $D"
