#!/bin/sh
# Runs the repository's own test suite (30 cases) on a scratch copy of /repo's
# working tree, built exactly as shipped: guard SKINNY_C_VERIF is NOT defined.
set -e
REPO="${VERIF_REPO:-/repo}"
T="$(mktemp -d "${TMPDIR:-/tmp}/vpbase-XXXXXX")"
trap 'rm -rf "$T"' EXIT INT TERM
rsync -a --exclude .git --exclude '*.o' --exclude '*.a' --exclude test/test-skinny \
      --exclude test/test-perf --exclude examples/skinny-ctr --exclude examples/skinny-ecb \
      --exclude examples/skinny-tweak "$REPO"/ "$T"/
make -C "$T" -s all >/dev/null 2>"$T/build.log" || { cat "$T/build.log"; exit 2; }
make -C "$T" check
