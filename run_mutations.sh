#!/bin/bash
# Applies every patch under mutations/ and seeded/*/patch.diff to a scratch copy of /repo,
# confirms the 30 baseline tests, runs the check(s) expected to catch it (quick tier) and
# prints one line per patch.  Dev aid / regression of the detection claims in DESIGN.md 8.5-8.8.
cd "$(dirname "$0")"
expect() {
  case "$1" in
    revert-F1) echo "C10 C11";; revert-F2) echo "C04 C14";; revert-F3) echo "C14";; revert-F4) echo "C16";;
    revert-F5) echo "C05 C06";; revert-F6) echo "C06";; revert-F7) echo "C13";; revert-F8) echo "C19";;
    m02*) echo "C07";; m03*) echo "C07";; m04*) echo "C04 C05";; m05*) echo "C08";; m07*) echo "C18";; m08*) echo "C18";;
    m09*) echo "C17";; m11*) echo "C19";; m12*) echo "C20";; m13*) echo "C09";; m14*) echo "C12";; m15*) echo "C15";;
    m16*) echo "C09 C10";; m17*) echo "C09";; m18*|m19*) echo "C13";; m20*|m21*) echo "C19";; m22*|m23*) echo "C20";; m24*) echo "C09 C07";;
    *) echo "";;
  esac
}
J=${MUT_JOBS:-3}
one() {  # name patch checks...
  name="$1"; patch="$2"; shift 2
  T="$(mktemp -d /tmp/vpmutall-XXXXXX)"
  rsync -a --exclude .git --exclude '*.o' --exclude '*.a' /repo/ "$T"/
  if ! ( cd "$T" && patch -p1 -s < "$patch" ) >/dev/null 2>&1; then echo "$name: PATCH-DOES-NOT-APPLY"; rm -rf "$T"; return; fi
  base=$(VERIF_REPO="$T" ./baseline_off.sh 2>/dev/null | grep -c ": ok")
  res=""
  for id in "$@"; do
    case "$id" in *@thorough) targs="--tier thorough";; *) targs="";; esac
    if VERIF_REPO="$T" VERIF_EVIDENCE_DIR="$T/ev" timeout 6000 ./vpcheck "${id%@thorough}" $targs > "$T/out" 2>&1; then rc=0; else rc=$?; fi
    res="$res $id=$( [ $rc = 1 ] && echo caught || echo "MISSED(exit$rc)")"
  done
  echo "$name: baseline $base/30;$res"
  rm -rf "$T"
}
for p in mutations/*.diff; do n=$(basename "$p" .diff); e=$(expect "$n"); [ -n "$e" ] && { one "$n" "$(readlink -f "$p")" $e & }; while [ "$(jobs -r | wc -l)" -ge "$J" ]; do sleep 1; done; done
# seeds: the checks recorded as catching them in their meta.json (the check named after the property
# first when it is among them)
for d in seeded/*/; do
  n=$(basename "$d")
  e=$(python3 -c "
import json,sys
m=json.load(open('$d/meta.json')); own='$n'.split('-')[0]
c=[x['check'].replace(' --tier thorough','@thorough') for x in m.get('checks',[]) if x.get('caught')]
c=sorted(set(c), key=lambda x:(x!=own, x))
print(' '.join(c[:2]))")
  [ -n "$e" ] && { one "seed-$n" "$(readlink -f "$d/patch.diff")" $e & }
  while [ "$(jobs -r | wc -l)" -ge "$J" ]; do sleep 1; done
done
wait
