#!/bin/sh
# usage: tools_mutate.sh <patch.diff> <property-id>...   (dev aid)
# Applies a patch to a scratch copy of /repo, confirms that the 30 baseline tests
# still pass, then runs the named checks against the copy (VERIF_REPO).
set -e
P="$(readlink -f "$1")"; shift
T="$(mktemp -d /tmp/vpmut-XXXXXX)"
trap 'rm -rf "$T"' EXIT INT TERM
rsync -a --exclude .git --exclude '*.o' --exclude '*.a' /repo/ "$T"/
( cd "$T" && patch -p1 -s < "$P" )
N=$(VERIF_REPO="$T" /verif/baseline_off.sh 2>/dev/null | grep -c ": ok" || true)
echo "baseline on mutant: $N/30 ok"
for id in "$@"; do
    if VERIF_REPO="$T" /verif/vpcheck "$id" > "$T/out.$id" 2>&1; then rc=0; else rc=$?; fi
    echo "== $id exit $rc: $(grep -c '^VIOLATION' "$T/out.$id" || true) violation line(s)"
    grep -A2 '^VIOLATION' "$T/out.$id" | grep 'signature\|detail' | cut -c1-260 | sort | uniq | head -6
    grep 'ENGINE-ERROR' "$T/out.$id" | head -3
done
