#!/bin/sh
# usage: tools_mkmut.sh <name> <file-relative-to-repo> <sed-expression>   (dev aid)
# Produces /verif/mutations/<name>.diff from a sed edit on a scratch copy of one file.
set -e
T="$(mktemp -d /tmp/vpmk-XXXXXX)"; trap 'rm -rf "$T"' EXIT
mkdir -p "$T/a/$(dirname "$2")" "$T/b/$(dirname "$2")"
cp "/repo/$2" "$T/a/$2"; cp "/repo/$2" "$T/b/$2"
sed -i "$3" "$T/b/$2"
( cd "$T" && diff -u "a/$2" "b/$2" > "/verif/mutations/$1.diff" ) || true
[ -s "/verif/mutations/$1.diff" ] || { echo "no change"; exit 1; }
grep -c '^[-+][^-+]' "/verif/mutations/$1.diff"
