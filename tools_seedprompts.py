#!/usr/bin/env python3
"""Dev aid: writes /tmp/prompt<R>-<id>.txt for a new round of seeded changes.
usage: tools_seedprompts.py <round-number> [extra guidance text file]
Each prompt contains only: the task rules, the property text (from properties.jsonl) and one line per
earlier seeded change for that property (from the tables of DESIGN.md 8.6 onwards) - nothing else
from /verif.  The sub-agent works in /tmp/seed<R>-<id> (create with: git -C /repo worktree add --detach)."""
import json, os, re, sys

VERIF = os.path.dirname(os.path.abspath(__file__))
R = sys.argv[1]
extra = open(sys.argv[2]).read().strip() if len(sys.argv) > 2 else ""
design = open(os.path.join(VERIF, "DESIGN.md")).read()
design = design[design.index("### 8.6"):]
rows = {}
for m in re.finditer(r"^\| (C\d\d)(-r\d+)? \| (.*?) \| (.*?) \|$", design, re.M):
    rows.setdefault(m.group(1), []).append(re.sub(r"\*\*", "", m.group(3)).replace("\\|", "|"))
props = {json.loads(l)["id"]: json.loads(l) for l in open(os.path.join(VERIF, "properties.jsonl"))}
RULES_HEAD = """You are helping test a verification framework by writing ONE realistic, subtle bug ("seeded change") into a scratch copy of an open-source C library (rweather/skinny-c: SKINNY-64/128 and Mantis tweakable block ciphers, with ECB, CTR and parallel modes plus SIMD back ends).

Work ONLY inside the git worktree {W} (a detached checkout of the library). Do NOT read, list or modify anything under /verif or /repo, and do not look at other /tmp/seed* directories. Do not commit anything.

"""
RULES_TAIL = """Task:
1. Read the relevant source in {W} (start with README.md, include/*.h, src/, and for some properties examples/ or arduino/libraries/Skinny/).
2. Make a small source change in {W} (library code, build files, or the example tools / Arduino port when the property is about those) that BREAKS this property, while the code still compiles without errors and the repository's own test suite still passes: run `make -C {W} clean >/dev/null; make -C {W} all >/dev/null && make -C {W} check` and confirm all 30 test lines end in ": ok".
3. The change must be the kind of mistake a maintainer could plausibly make (a refactoring slip, an "optimisation", a wrong constant in a rarely used path, a missing or misplaced check), and it must need something SPECIFIC to manifest - a particular input value or length, an unusual but legal argument, a multi-step sequence of calls, a particular back end (generic / 128-bit SIMD / 256-bit SIMD; the host has SSE2 and AVX2), a particular build configuration, a fault such as a failed allocation, a particular thread interleaving, or two sites that each look fine alone. Ordinary use (what the test suite does: one published vector per variant, one counter, full-length keys, 128-block buffers) must NOT expose it. Do not simply delete functionality or break everything.
4. Write a demonstration: a small C program (or shell script for the command-line tools) under {W}/seed/ that exits non-zero / prints FAIL with your change applied and exits 0 / prints PASS on the unmodified code. Provide {W}/seed/run_demo.sh that builds the library and the demo inside {W} and runs it (exit status 0 = property holds, non-zero = broken). Verify both directions yourself: with your change (must fail) and with the change stashed/reverted (must pass) - use `git -C {W} stash` / `git -C {W} stash pop` or `git -C {W} diff > patch; git -C {W} checkout -- <files>` carefully so the seed/ directory (untracked) survives.
5. Save the change as {W}/seed/patch.diff (output of `git -C {W} diff` taken while the change is applied; it must apply with `git apply` to a clean checkout), and write {W}/seed/meta.txt with: which files/functions you changed, what exactly triggers the bug, why the 30 existing tests still pass.
6. Leave the worktree with the change applied.

Final answer: a concise report (what you changed, the trigger, the commands you ran and their outcomes). If you cannot find a change that passes the test suite, say so clearly rather than faking it.
"""
for pid, p in props.items():
    W = "/tmp/seed%s-%s" % (R, pid)
    prev = "\n".join("  - " + x for x in rows.get(pid, []))
    body = ("The property your change must break:\n\n  Title: %s\n  Statement: %s\n  Quantified over: %s\n\n"
            "Earlier rounds already produced the changes listed below for this property. Yours must be clearly DIFFERENT from all of them "
            "(other function, file, cipher, back end, mechanism and kind of trigger). Read the whole relevant source before choosing. %s\n%s\n\n"
            % (p["title"], p["statement"], p["quantifier"]["text"], extra, prev))
    with open("/tmp/prompt%s-%s.txt" % (R, pid), "w") as f:
        f.write(RULES_HEAD.format(W=W) + body + RULES_TAIL.format(W=W))
print("wrote %d prompts under /tmp/prompt%s-*.txt (%s earlier changes per property)" % (len(props), R, sorted(set(len(v) for v in rows.values()))))
