/*
 * cpu (C13): back-end selection.
 *  (a) real CPU: each of the six init functions is called through an assembly
 *      trampoline that first loads every caller-saved register with each of a set of
 *      patterns and paints the stack; the selection must be the widest back end that is
 *      compiled in and that this CPU/OS supports (oracle: the compiler's own CPU
 *      detection), identical on every call.
 *  (b) modelled CPU (built with -DMODEL against a library built with
 *      -DSKINNY_C_VERIF_CPUID): CPUID/XGETBV are answered by an enumerated family of
 *      CPU/OS models; every environment state x every init is executed.
 */
#include "common.h"
#include "alloc.h"
#include "obj.h"
#include <string.h>
#include <stdlib.h>

int vp_call_garbage(void *fn, void *obj, uint64_t pattern);

static const char *INITNAME[6] = {"skinny128_ctr_init", "skinny64_ctr_init", "mantis_ctr_init",
                                  "skinny128_parallel_ecb_init", "skinny64_parallel_ecb_init", "mantis_parallel_ecb_init"};
static void *INITFN[6] = {(void *)skinny128_ctr_init, (void *)skinny64_ctr_init, (void *)mantis_ctr_init,
                          (void *)skinny128_parallel_ecb_init, (void *)skinny64_parallel_ecb_init, (void *)mantis_parallel_ecb_init};

/* returns selected back end (BE_*) of init function i called with register pattern pat; psize gets parallel_size */
static int do_init(int i, uint64_t pat, size_t *psize, int *ret)
{
    union { CtrObj c; ParObj p; } o;
    Cipher c = (Cipher)(i % 3);
    int be;
    memset(&o, g_paint, sizeof(o));   /* the caller's object is uninitialised memory: whatever the pattern of this case is */
    *psize = 0;
    verif_paint_stack();
    g_in_lib = 1;
    *ret = vp_call_garbage(INITFN[i], &o, pat);
    g_in_lib = 0;
    if (!*ret) return -9;
    if (i < 3) { be = ctr_backend(c, &o.c); ctr_cleanup(c, &o.c); }
    else { be = par_backend(c, &o.p); *psize = o.p.raw.parallel_size; par_cleanup(c, &o.p); }
    return be;
}

static int compiled_max = 2;   /* --maxbe: widest back end compiled into the library */
static int compiled_128 = 1;   /* --sub no128: the 128-bit back ends are compiled out while the 256-bit ones are in */

static int expected_be(int i, int usable128, int usable256)
{
    int is128 = (i % 3) == 0;
    if (is128 && usable256 && compiled_max >= 2) return BE_V256;
    if (usable128 && compiled_max >= 1 && compiled_128) return BE_V128;
    return BE_GEN;
}

static void judge(int i, int be, size_t psize, int ret, int want, const char *envdesc, const char *cd)
{
    char sig[200];
    Cipher c = (Cipher)(i % 3);
    ++g_cnt.evaluations;
    if (!ret) { snprintf(sig, sizeof(sig), "C13/%s/init-failed", INITNAME[i]); violation(sig, cd, "%s returned 0 (%s)", INITNAME[i], envdesc); return; }
    if (be != want) {
        snprintf(sig, sizeof(sig), "C13/%s/%s", INITNAME[i], be > want ? "selected-unsupported-back-end" : "fell-back-to-narrower-back-end");
        violation(sig, cd, "%s selected %s, expected %s (%s)", INITNAME[i], be == -3 ? "a function table whose entries belong to different back ends" : (be < 0 ? "unknown vtable" : be_name(be)), be_name(want), envdesc);
    }
    if (i >= 3 && (int)psize != par_batch(c, want)) {
        snprintf(sig, sizeof(sig), "C13/%s/parallel_size", INITNAME[i]);
        violation(sig, cd, "%s advertises parallel_size %zu, expected %d for back end %s (%s)", INITNAME[i], psize, par_batch(c, want), be_name(want), envdesc);
    }
}

#ifndef MODEL
/* ------------------------------------------------------------ (a) real CPU */
static const uint64_t PATS[] = {0, 1, 2, 7, 0xFFFFFFFFULL, 0xFFFFFFFFFFFFFFFFULL, 0x00000000BFEBFBFFULL, 0x7FFAFBFFULL,
                                0xAAAAAAAAAAAAAAAAULL, 0x5555555555555555ULL, 0x80000000ULL, 0x0000000100000007ULL, 0xD, 0x14};
int main(int argc, char **argv)
{
    int i, rep; size_t k;
    int host = host_max_backend();
    parse_opts(argc, argv);
    crash_guard_install();
    compiled_max = g_opts.maxbe; compiled_128 = !(g_opts.sub && !strcmp(g_opts.sub, "no128"));
    for (rep = 0; rep < 3; ++rep) for (k = 0; k < sizeof(PATS) / sizeof(PATS[0]); ++k) for (i = 0; i < 6; ++i) {
        size_t ps; int ret, be; char cd[100], env[200];
        g_paint = (int)(PATS[k] & 0xFF);
        arena_reset();
        { int cv[2]; cv[0] = i; cv[1] = (int)k; crash_case("C13", "c13a", 2, cv, NULL, 0); }   /* an init that dies (a function table of a back end that is not compiled in, say) is this case's outcome */
        be = do_init(i, PATS[k], &ps, &ret);
        crash_case_done();
        snprintf(cd, sizeof(cd), "c13a %d %zu", i, k);
        snprintf(env, sizeof(env), "real CPU: sse2=%d avx2=%d per the compiler's detection; caller registers and stack = 0x%llx", host >= 1, host >= 2, (unsigned long long)PATS[k]);
        judge(i, be, ps, ret, expected_be(i, host >= 1, host >= 2), env, cd);
        distinct_add_u64(fnv1a(cd, strlen(cd), 13));
    }
    /* an init that succeeds although one of its allocation requests was refused (whether it may is C16's
     * business) must still have selected the widest usable back end */
    for (i = 0; i < 6; ++i) for (k = 1; k <= 2; ++k) {
        size_t ps; int ret, be; char cd[100], env[200];
        g_paint = 0xA5;
        arena_reset();
        g_fail_at = g_alloc_calls + (int)k;
        { int cv[2]; cv[0] = i; cv[1] = (int)k; crash_case("C13", "c13f", 2, cv, NULL, 0); }
        be = do_init(i, 0x5555555555555555ULL, &ps, &ret);
        crash_case_done();
        g_fail_at = 0;
        if (!ret) continue;
        snprintf(cd, sizeof(cd), "c13f %d %zu", i, k);
        snprintf(env, sizeof(env), "real CPU: sse2=%d avx2=%d; allocation request %zu of the init refused, init returned 1", host >= 1, host >= 2, k);
        judge(i, be, ps, ret, expected_be(i, host >= 1, host >= 2), env, cd);
    }
    note_num("host_sse2", host >= 1); note_num("host_avx2", host >= 2);
    sample_add("skinny128_ctr_init called with rax=rbx=rcx=rdx=rsi=r8..r11=0xBFEBFBFF and the stack painted 0xFF, three times");
    return finish();
}
#else
/* ------------------------------------------------------------ (b) modelled CPU / OS */
static struct {
    unsigned max_leaf; int oor_highest; int sse2, osxsave, avx, avx2; unsigned xcr0; unsigned l7sub1, junk;
    unsigned long queries;
} M;

static void leaf_regs(uint32_t leaf, uint32_t subleaf, uint32_t r[4])
{
    uint32_t j = M.junk;
    r[0] = r[1] = r[2] = r[3] = j;
    switch (leaf) {
    case 0: r[0] = M.max_leaf; break;
    case 1:
        r[2] = (j & ~((1u << 27) | (1u << 28))) | ((uint32_t)M.osxsave << 27) | ((uint32_t)M.avx << 28);
        r[3] = (j & ~(1u << 26)) | ((uint32_t)M.sse2 << 26);
        break;
    case 7:
        /* EAX of sub-leaf 0 is the highest sub-leaf: 0 on the many CPUs that have sub-leaf 0 only (then sub-leaf 1 reads as zeros), 1 otherwise */
        if (subleaf == 0) { r[0] = M.l7sub1 ? 1 : 0; r[1] = (j & ~(1u << 5)) | ((uint32_t)M.avx2 << 5); }
        else { r[0] = r[1] = r[2] = r[3] = M.l7sub1; }
        break;
    default: break;
    }
}

uint32_t skinny_c_verif_cpuid_max(void) { ++M.queries; return M.max_leaf; }

void skinny_c_verif_cpuid(uint32_t leaf, uint32_t subleaf, uint32_t regs[4])
{
    ++M.queries;
    if (leaf > M.max_leaf) {
        /* beyond the highest basic leaf: zeros, or (Intel) the data of the highest basic leaf */
        if (M.oor_highest) leaf_regs(M.max_leaf, subleaf, regs); else regs[0] = regs[1] = regs[2] = regs[3] = 0;
        if (M.oor_highest && M.max_leaf < 7) { regs[0] = regs[1] = regs[2] = regs[3] = 0xFFFFFFFFu; }
        return;
    }
    leaf_regs(leaf, subleaf, regs);
}

static int g_xgetbv_ud;      /* XGETBV executed although CPUID.1:ECX.OSXSAVE is clear: #UD on a real machine */
uint64_t skinny_c_verif_xgetbv(uint32_t index) { ++M.queries; if (!M.osxsave) g_xgetbv_ud = 1; return index == 0 ? M.xcr0 : 0; }

int main(int argc, char **argv)
{
    static const unsigned LEAVES[] = {1, 2, 4, 6, 7, 0xB, 0xD, 0x1F}, XCR[] = {1, 3, 7, 0xE7};
    int host = host_max_backend(), i, skipped = 0;
    unsigned a, b, c, d, e, f, g, h, k; unsigned long states = 0;
    parse_opts(argc, argv);
    crash_guard_install();
    compiled_max = g_opts.maxbe; compiled_128 = !(g_opts.sub && !strcmp(g_opts.sub, "no128"));
    for (a = 0; a < 8; ++a) for (b = 0; b < 2; ++b) for (c = 0; c < 2; ++c) for (d = 0; d < 2; ++d) for (e = 0; e < 2; ++e)
    for (f = 0; f < 4; ++f) for (g = 0; g < 2; ++g) for (h = 0; h < 2; ++h) for (k = 0; k < 2; ++k) {
        int usable128, usable256; char env[300], cd[120];
        M.max_leaf = LEAVES[a]; M.oor_highest = (int)b; M.sse2 = (int)c; M.osxsave = (int)d; M.avx = (int)e; M.xcr0 = XCR[f]; M.avx2 = (int)g;
        M.l7sub1 = h ? 0xFFFFFFFFu : 0; M.junk = k ? 0xFFFFFFFFu : 0;
        /* only consistent CPUs: AVX2 implies AVX implies SSE2; a CPU without leaf 7 has no AVX2 */
        if ((M.avx2 && !M.avx) || (M.avx && !M.sse2) || (M.avx2 && M.max_leaf < 7)) continue;
        if ((states++ % (unsigned long)g_opts.nshards) != (unsigned long)g_opts.shard) continue;
        usable128 = M.sse2;
        usable256 = M.max_leaf >= 7 && M.avx2 && M.osxsave && (M.xcr0 & 6) == 6;
        snprintf(env, sizeof(env), "model: max leaf 0x%x, out-of-range leaf returns %s, SSE2=%d OSXSAVE=%d AVX=%d XCR0=0x%x AVX2(leaf 7.0 EBX[5])=%d, leaf 7 sub-leaf 1 = %s, other feature bits = %s",
                 M.max_leaf, M.oor_highest ? "highest basic leaf" : "zeros", M.sse2, M.osxsave, M.avx, M.xcr0, M.avx2, h ? "all ones" : "zeros", k ? "all ones" : "zeros");
        for (i = 0; i < 6; ++i) {
            int want = expected_be(i, usable128, usable256), rep;
            if (want > host) { ++skipped; continue; }     /* never execute a back end the host cannot run */
            for (rep = 0; rep < 2; ++rep) {
                size_t ps; int ret, be;
                arena_reset();
                g_paint = rep ? 0xFF : 0;
                M.queries = 0; g_xgetbv_ud = 0;
                { int cv[6]; cv[0] = (int)(a * 16 + b * 8 + c * 4 + d * 2 + e); cv[1] = (int)f; cv[2] = (int)(g * 4 + h * 2 + k); cv[3] = i; cv[4] = rep; crash_case("C13", "c13b-packed", 5, cv, NULL, 0); }
                be = do_init(i, rep ? 0xFFFFFFFFFFFFFFFFULL : 7, &ps, &ret);
                crash_case_done();
                snprintf(cd, sizeof(cd), "c13b %u %u %u %u %u %u %u %u %u %d", a, b, c, d, e, f, g, h, k, i);
                judge(i, be, ps, ret, want, env, cd);
                if (g_xgetbv_ud) {
                    char sg[160]; snprintf(sg, sizeof(sg), "C13/%s/probe-executes-xgetbv-without-osxsave", INITNAME[i]);
                    violation(sg, cd, "%s executed XGETBV on a machine whose CPUID.1:ECX.OSXSAVE bit is clear - an undefined-opcode fault there (%s)", INITNAME[i], env);
                }
                if (be > host && be <= 2) engine_error("model run selected a back end the host cannot execute");
            }
            distinct_add_u64(fnv1a(env, strlen(env), (uint64_t)i));
        }
    }
    note_num("environment_states", (double)states); note_num("cases_skipped_host_cannot_execute", skipped);
    if (g_opts.shard == 0) sample_add("model: max leaf 0xD, SSE2=1 OSXSAVE=1 AVX=1 XCR0=0x3 (YMM state not enabled by the OS) AVX2=1 -> skinny128_ctr_init must select v128");
    return finish();
}
#endif
