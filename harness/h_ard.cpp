/*
 * ard (C19): the Arduino port (portable C++ path, compiled unchanged on the host)
 * against the C library.
 *  - block families through setKey / [setTweak] / encryptBlock / decryptBlock of all 11
 *    block-cipher classes;
 *  - every history up to a depth over {setKey, setTweak (values, NULL, wrong length),
 *    swapModes, clear+setKey, setKey(wrong length)} for the four tweakable classes and
 *    Mantis8, oracle = C library keyed afresh with the last key / tweak / mode;
 *  - CTR<T> over the five Skinny-128 classes: setKey, setIV, every sequence of encrypt
 *    lengths from LENS(16) up to a bound, in lock step with skinny128_ctr_* pinned to the
 *    generic back end; wrong-length setKey / setIV return false and change nothing.
 */
#define Cipher VCipher          /* the harness's cipher-kind enum; Arduino has a class called Cipher */
extern "C" {
#include "common.h"
#include "alloc.h"
#include "obj.h"
}
#undef Cipher
#include <string.h>
#include <stdlib.h>
#include "Skinny128.h"
#include "Skinny64.h"
#include "Mantis8.h"
#include "CTR.h"
#include <new>
#include <cstdlib>
#include <string.h>
/* objects of the port are created with new: C++ does not clear that memory, so the harness hands out storage filled
 * with a pattern (a member that a constructor or setKey forgets to set then holds 0xA5, not a convenient zero) */
void *operator new(std::size_t n) { void *p = std::malloc(n ? n : 1); if (!p) std::abort(); memset(p, 0xA5, n); return p; }
void operator delete(void *p) noexcept { std::free(p); }
void operator delete(void *p, std::size_t) noexcept { std::free(p); }


static uint8_t KEYS[2][48];

/* ------------------------------------------------------------ block families */
typedef struct { int id, bs, klen, tweaked, dir; } Var;
static const char *VNAME[11] = {"Skinny128_128", "Skinny128_256", "Skinny128_384", "Skinny128_256_Tweaked", "Skinny128_384_Tweaked",
                                "Skinny64_64", "Skinny64_128", "Skinny64_192", "Skinny64_128_Tweaked", "Skinny64_192_Tweaked", "Mantis8"};
static const Var VARS[11] = {{0,16,16,0,0},{1,16,32,0,0},{2,16,48,0,0},{3,16,16,1,0},{4,16,32,1,0},{5,8,8,0,0},{6,8,16,0,0},{7,8,24,0,0},{8,8,8,1,0},{9,8,16,1,0},{10,8,16,1,0}};

static Skinny128_128 a0; static Skinny128_256 a1; static Skinny128_384 a2; static Skinny128_256_Tweaked a3; static Skinny128_384_Tweaked a4;
static Skinny64_64 a5; static Skinny64_128 a6; static Skinny64_192 a7; static Skinny64_128_Tweaked a8; static Skinny64_192_Tweaked a9; static Mantis8 a10;

/* a fresh object per case / per history, so that cases are independent of each other and a
 * violation replays stand-alone */
static BlockCipher *fresh_of(int id)
{
    switch (id) { case 0: return new Skinny128_128; case 1: return new Skinny128_256; case 2: return new Skinny128_384; case 3: return new Skinny128_256_Tweaked;
                  case 4: return new Skinny128_384_Tweaked; case 5: return new Skinny64_64; case 6: return new Skinny64_128; case 7: return new Skinny64_192;
                  case 8: return new Skinny64_128_Tweaked; case 9: return new Skinny64_192_Tweaked; default: return new Mantis8; }
}
static BlockCipher *cur_obj[11];

static BlockCipher *obj_of_static(int id)
{
    switch (id) { case 0: return &a0; case 1: return &a1; case 2: return &a2; case 3: return &a3; case 4: return &a4; case 5: return &a5;
                  case 6: return &a6; case 7: return &a7; case 8: return &a8; case 9: return &a9; default: return &a10; }
}

static BlockCipher *obj_of(int id) { return cur_obj[id] ? cur_obj[id] : obj_of_static(id); }
static void renew(int id) { delete cur_obj[id]; cur_obj[id] = fresh_of(id); }

static bool ard_set_tweak(int id, const uint8_t *t, size_t len)
{
    BlockCipher *o = obj_of(id);
    switch (id) { case 3: return ((Skinny128_256_Tweaked *)o)->setTweak(t, len); case 4: return ((Skinny128_384_Tweaked *)o)->setTweak(t, len);
                  case 8: return ((Skinny64_128_Tweaked *)o)->setTweak(t, len); case 9: return ((Skinny64_192_Tweaked *)o)->setTweak(t, len);
                  default: return ((Mantis8 *)o)->setTweak(t, len); }
}

/* C library result for (variant, key, tweak, mode, dir) */
static void c_block(const Var *v, const uint8_t *key, const uint8_t *tweak, int mantis_decrypt_mode, int dir, const uint8_t *in, uint8_t *out)
{
    if (v->id == 10) {
        MantisKey_t ks; mantis_set_key(&ks, key, 16, 8, mantis_decrypt_mode ? MANTIS_DECRYPT : MANTIS_ENCRYPT); mantis_set_tweak(&ks, tweak, 8); mantis_ecb_crypt(out, in, &ks);
    } else if (v->bs == 16) {
        if (v->tweaked) { Skinny128TweakedKey_t tk; skinny128_set_tweaked_key(&tk, key, (unsigned)v->klen); skinny128_set_tweak(&tk, tweak, 16);
                          if (dir) skinny128_ecb_decrypt(out, in, &tk.ks); else skinny128_ecb_encrypt(out, in, &tk.ks); }
        else { Skinny128Key_t ks; skinny128_set_key(&ks, key, (unsigned)v->klen); if (dir) skinny128_ecb_decrypt(out, in, &ks); else skinny128_ecb_encrypt(out, in, &ks); }
    } else {
        if (v->tweaked) { Skinny64TweakedKey_t tk; skinny64_set_tweaked_key(&tk, key, (unsigned)v->klen); skinny64_set_tweak(&tk, tweak, 8);
                          if (dir) skinny64_ecb_decrypt(out, in, &tk.ks); else skinny64_ecb_encrypt(out, in, &tk.ks); }
        else { Skinny64Key_t ks; skinny64_set_key(&ks, key, (unsigned)v->klen); if (dir) skinny64_ecb_decrypt(out, in, &ks); else skinny64_ecb_encrypt(out, in, &ks); }
    }
}

static void fam_case(const uint8_t *buf, size_t m, void *arg)
{
    const Var *v = (const Var *)arg;
    const uint8_t *tweak = buf, *key = buf + (v->tweaked ? v->bs : 0), *blk = key + v->klen;
    uint8_t real[16], want[16]; char sig[120], cd[300];
    BlockCipher *o;
    renew(v->id);
    o = obj_of(v->id);
    ++g_cnt.evaluations;
    if (!o->setKey(key, (size_t)v->klen)) { violation("C19/setKey-rejected", "", "%s.setKey returned false for its own key size", VNAME[v->id]); return; }
    if (v->tweaked && !ard_set_tweak(v->id, tweak, (size_t)v->bs)) { violation("C19/setTweak-rejected", "", "%s.setTweak returned false", VNAME[v->id]); return; }
    if (v->dir) o->decryptBlock(real, blk); else o->encryptBlock(real, blk);
    if (v->id == 10) c_block(v, key, tweak, 0, 0, blk, want);       /* Mantis8: both calls are the encrypt-mode operation */
    else c_block(v, key, tweak, 0, v->dir, blk, want);
    if (memcmp(real, blk, (size_t)v->bs) != 0) distinct_add_u64(fnv1a(real, (size_t)v->bs, fnv1a(buf, m, (uint64_t)(v->id * 2 + v->dir))));
    if (memcmp(real, want, (size_t)v->bs) != 0) {
        snprintf(sig, sizeof(sig), "C19/%s/%s", VNAME[v->id], v->dir ? "decryptBlock" : "encryptBlock");
        snprintf(cd, sizeof(cd), "c19f %d %d %s", v->id, v->dir, hexs(buf, m));
        violation(sig, cd, "%s key=%s tweak=%s block=%s: Arduino class gives %s, C library gives %s", VNAME[v->id], hexs(key, (size_t)v->klen),
                  v->tweaked ? hexs(tweak, (size_t)v->bs) : "-", hexs(blk, (size_t)v->bs), hexs(real, (size_t)v->bs), hexs(want, (size_t)v->bs));
    }
}

static void run_families(void)
{
    int i, dir; uint8_t vec[96];
    for (i = 0; i < 11; ++i) for (dir = 0; dir < 2; ++dir) {
        Var v = VARS[i]; v.dir = dir;
        lcg_fill(vec, sizeof(vec), 1900 + (uint32_t)i);
        fam_iterate((size_t)((v.tweaked ? v.bs : 0) + v.klen + v.bs), vec, tier_thorough(), fam_case, &v);
    }
    sample_add("Skinny128_384_Tweaked: families over tweak||key||block through setKey/setTweak/encryptBlock vs skinny128_set_tweaked_key/set_tweak/ecb_encrypt");
}

/* ------------------------------------------------------------ histories (tweakable classes, Mantis8) */
enum { H_KEY0, H_KEY1, H_KEYBAD, H_TW0, H_TW1, H_TW2, H_TW3, H_TWNULL, H_TWBAD, H_CLEARKEY, H_SWAP, H_NOPS };
static const char *HNAME[H_NOPS] = {"setKey(K0)", "setKey(K1)", "setKey(wrong length)", "setTweak(zero)", "setTweak(FF..)", "setTweak(R1)", "setTweak(R2)", "setTweak(NULL)",
                                    "setTweak(wrong length)", "clear;setKey(K0)", "swapModes"};
static uint8_t HTW[4][16];
static uint64_t hist_count;

static void hist_check(const Var *v, const int *h, int n, int ki, const uint8_t *tweak, int mode)
{
    uint8_t blk[16], real[16], want[16]; int p, dir; char sig[160], cd[200], ht[400]; size_t o = 0; int i;
    BlockCipher *ob = obj_of(v->id);
    for (dir = 0; dir < 2; ++dir) for (p = 0; p < 4; ++p) {
        lcg_fill(blk, 16, 77 + (uint32_t)p); if (p == 0) memset(blk, 0, 16);
        if (dir) ob->decryptBlock(real, blk); else ob->encryptBlock(real, blk);
        c_block(v, KEYS[ki], tweak, mode, v->id == 10 ? 0 : dir, blk, want);
        ++g_cnt.evaluations;
        if (memcmp(real, want, (size_t)v->bs) != 0) {
            o = (size_t)snprintf(cd, sizeof(cd), "c19h %d", v->id);
            ht[0] = 0;
            for (i = 0; i < n; ++i) { o += (size_t)snprintf(cd + o, sizeof(cd) - o, " %d", h[i]); snprintf(ht + strlen(ht), sizeof(ht) - strlen(ht), "%s%s", i ? "; " : "", HNAME[h[i]]); }
            snprintf(sig, sizeof(sig), "C19/%s/history/%s", VNAME[v->id], HNAME[h[n - 1]]);
            violation(sig, cd, "%s after [%s]: %s of %s gives %s, the C library keyed afresh with the last key/tweak%s gives %s", VNAME[v->id], ht,
                      dir ? "decryptBlock" : "encryptBlock", hexs(blk, (size_t)v->bs), hexs(real, (size_t)v->bs), v->id == 10 ? "/mode" : "", hexs(want, (size_t)v->bs));
            return;
        }
    }
}

/* replays h[0..n) on the object, returns model state; ok=false when a return value is wrong */
static bool hist_replay(const Var *v, const int *h, int n, int *ki, uint8_t *tweak, int *mode, char *why)
{
    BlockCipher *ob; int i; bool r;
    *ki = 0; memset(tweak, 0, 16); *mode = 0;
    renew(v->id);
    ob = obj_of(v->id);
    for (i = 0; i < n; ++i) {
        switch (h[i]) {
        case H_KEY0: case H_KEY1: r = ob->setKey(KEYS[h[i] - H_KEY0], (size_t)v->klen); *ki = h[i] - H_KEY0; memset(tweak, 0, 16); *mode = 0; if (!r) { sprintf(why, "%s returned false", HNAME[h[i]]); return false; } break;
        case H_KEYBAD: {   /* one too long, one too short, none, and the right length plus 2^8, 2^16, 2^32 (a length kept in a narrower type) */
            const size_t bad[7] = {(size_t)v->klen + 1, (size_t)v->klen - 1, 0, (size_t)v->klen + 256, (size_t)v->klen + 65536, (size_t)v->klen + ((size_t)1 << 32), (size_t)v->klen + 512};
            for (int bi = 0; bi < 7; ++bi) { r = ob->setKey(KEYS[1], bad[bi]); if (r) { sprintf(why, "setKey accepted the wrong length %zu", bad[bi]); return false; } }
            break; }
        case H_TW0: case H_TW1: case H_TW2: case H_TW3: r = ard_set_tweak(v->id, HTW[h[i] - H_TW0], (size_t)v->bs); memcpy(tweak, HTW[h[i] - H_TW0], 16); if (!r) { sprintf(why, "%s returned false", HNAME[h[i]]); return false; } break;
        case H_TWNULL: r = ard_set_tweak(v->id, NULL, (size_t)v->bs); memset(tweak, 0, 16); if (!r) { sprintf(why, "setTweak(NULL) returned false"); return false; } break;
        case H_TWBAD: {
            const size_t bad[7] = {(size_t)v->bs - 1, (size_t)v->bs + 1, 0, (size_t)v->bs + 256, (size_t)v->bs + 65536, (size_t)v->bs + ((size_t)1 << 32), (size_t)v->bs + 512};
            for (int bi = 0; bi < 7; ++bi) { r = ard_set_tweak(v->id, HTW[2], bad[bi]); if (r) { sprintf(why, "setTweak accepted the wrong length %zu", bad[bi]); return false; } }
            break; }
        case H_CLEARKEY: ob->clear(); r = ob->setKey(KEYS[0], (size_t)v->klen); *ki = 0; memset(tweak, 0, 16); *mode = 0; if (!r) { sprintf(why, "setKey after clear returned false"); return false; } break;
        default: ((Mantis8 *)ob)->swapModes(); *mode = !*mode; break;
        }
    }
    return true;
}

static void hist_dfs(const Var *v, int *h, int n, int maxd)
{
    int ki, mode, op; uint8_t tweak[16]; char why[100];
    if (n > 0) {
        ++hist_count;
        if (!hist_replay(v, h, n, &ki, tweak, &mode, why)) {
            char sig[160], cd[200]; size_t o = (size_t)snprintf(cd, sizeof(cd), "c19h %d", v->id); int i;
            for (i = 0; i < n; ++i) o += (size_t)snprintf(cd + o, sizeof(cd) - o, " %d", h[i]);
            snprintf(sig, sizeof(sig), "C19/%s/history-return-value/%s", VNAME[v->id], HNAME[h[n - 1]]);
            violation(sig, cd, "%s: %s", VNAME[v->id], why);
            return;
        }
        hist_check(v, h, n, ki, tweak, mode);
        distinct_add_u64(fnv1a(h, sizeof(int) * (size_t)n, (uint64_t)v->id));
    }
    if (n >= maxd) return;
    for (op = 0; op < H_NOPS; ++op) {
        if (n == 0 && op != H_KEY0 && op != H_KEY1) continue;      /* no use before the first setKey */
        if (op == H_SWAP && v->id != 10) continue;
        h[n] = op;
        hist_dfs(v, h, n + 1, maxd);
    }
}

static void run_histories(void)
{
    static const int ids[5] = {3, 4, 8, 9, 10}; int i, h[8];
    memset(HTW[0], 0, 16); memset(HTW[1], 0xFF, 16); lcg_fill(HTW[2], 16, 5); lcg_fill(HTW[3], 16, 6);
    if (g_opts.replay) {
        int id, n = 0; const char *p = g_opts.replay + 5; Var v;
        id = atoi(p); v = VARS[id];
        while ((p = strchr(p, ' ')) != NULL) { ++p; h[n++] = atoi(p); if (n >= 8) break; }
        { int ki, mode; uint8_t tweak[16]; char why[100];
          if (!hist_replay(&v, h, n, &ki, tweak, &mode, why)) { char sig[160]; snprintf(sig, sizeof(sig), "C19/%s/history-return-value/%s", VNAME[id], HNAME[h[n - 1]]); violation(sig, g_opts.replay, "%s", why); }
          else hist_check(&v, h, n, ki, tweak, mode); }
        return;
    }
    for (i = 0; i < 5; ++i) {
        if (i % g_opts.nshards != g_opts.shard % 5 && g_opts.nshards > 1) continue;
        if (g_opts.shard >= 5) continue;
        hist_dfs(&VARS[ids[i]], h, 0, tier_thorough() ? 5 : 4);
    }
    note_num("histories", (double)hist_count);
    sample_add("Mantis8: setKey(K1); setTweak(R1); swapModes; setTweak(NULL); setTweak(wrong length) -> encryptBlock/decryptBlock of 4 blocks vs mantis_set_key(DECRYPT)+set_tweak(zero)");
}

/* ------------------------------------------------------------ CTR<T> */
static CTR<Skinny128_128> c0; static CTR<Skinny128_256> c1; static CTR<Skinny128_384> c2; static CTR<Skinny128_256_Tweaked> c3; static CTR<Skinny128_384_Tweaked> c4;
static CTRCommon *ctr_of(int i) { switch (i) { case 0: return &c0; case 1: return &c1; case 2: return &c2; case 3: return &c3; default: return &c4; } }
static const int CTR_KLEN[5] = {16, 32, 48, 16, 32}; static const int CTR_TWEAKED[5] = {0, 0, 0, 1, 1};
static const int CLENS[10] = {0, 1, 2, 15, 16, 17, 31, 32, 33, 49};
static uint8_t IVS[24][16]; static int nivs;
static uint64_t ctr_seqs;

/* csize: the counter size (setCounterSize) in force, set explicitly in every sequence because it is configuration
 * that survives clear(), setKey() and setIV(); cswhen: 0 = before setKey, 1 = after setIV (the documented order),
 * 2 = between setKey and setIV.  With the default size 16 the reference is the C library's CTR object (generic back
 * end); with a shorter one it is in xor E(c_i) computed with the C library's block function, c_i incremented inside
 * the last csize bytes only ("only the last size bytes are relevant when incrementing"). */
static void ctr_sequence(int cls, int iv, const int *seq, int n, int rekey_after, int csize, int cswhen, int reiv_after = -1)
{
    CTRCommon *a = ctr_of(cls); CtrObj co; static uint8_t in[256], oa[256], oc[256]; size_t pos = 0; int i; bool ok = true;
    Skinny128Key_t mk; Skinny128TweakedKey_t mtk; const Skinny128Key_t *ks = CTR_TWEAKED[cls] ? &mtk.ks : &mk;
    uint8_t mctr[16], mbuf[16]; int mpos = 16;
    arena_reset(); memset(&co, 0, sizeof(co));
    a->clear();
    if (cswhen == 0) ok &= a->setCounterSize((size_t)csize);
    ok &= a->setKey(KEYS[cls & 1], (size_t)CTR_KLEN[cls]);
    if (cswhen == 2) ok &= a->setCounterSize((size_t)csize);
    ok &= a->setIV(IVS[iv], 16);
    if (cswhen == 1) ok &= a->setCounterSize((size_t)csize);
    if (a->setKey(KEYS[0], (size_t)CTR_KLEN[cls] + 1) || a->setIV(IVS[1], 15) || a->setCounterSize(0) || a->setCounterSize(17)) ok = false;
    if (a->setKey(KEYS[0], (size_t)CTR_KLEN[cls] + 256) || a->setIV(IVS[1], 16 + 256) || a->setIV(IVS[1], 16 + 65536) || a->setCounterSize(256 + 4) || a->setCounterSize(((size_t)1 << 32) + 4)) ok = false;      /* wrong lengths / sizes: false, nothing changes */
    ctr_init(CK_S128, BE_GEN, &co);
    if (CTR_TWEAKED[cls]) { ctr_set_tweaked_key(CK_S128, &co, KEYS[cls & 1], (unsigned)CTR_KLEN[cls]); skinny128_set_tweaked_key(&mtk, KEYS[cls & 1], (unsigned)CTR_KLEN[cls]); }
    else { ctr_set_key(CK_S128, &co, KEYS[cls & 1], (unsigned)CTR_KLEN[cls], 0); skinny128_set_key(&mk, KEYS[cls & 1], (unsigned)CTR_KLEN[cls]); }
    ctr_set_counter(CK_S128, &co, IVS[iv], 16);
    memcpy(mctr, IVS[iv], 16);
    lcg_fill(in, sizeof(in), 321);
    for (i = 0; i < n; ++i) {
        if ((i & 1) && csize != 16) a->decrypt(oa + pos, in + pos, (size_t)seq[i]); else a->encrypt(oa + pos, in + pos, (size_t)seq[i]);
        if (csize == 16) ctr_encrypt(CK_S128, &co, oc + pos, in + pos, (size_t)seq[i]);
        else {
            int j, k;
            for (j = 0; j < seq[i]; ++j) {
                if (mpos >= 16) {
                    unsigned carry = 1;
                    skinny128_ecb_encrypt(mbuf, mctr, ks);
                    for (k = 15; k >= 16 - csize; --k) { carry += mctr[k]; mctr[k] = (uint8_t)carry; carry >>= 8; }
                    mpos = 0;
                }
                oc[pos + (size_t)j] = in[pos + (size_t)j] ^ mbuf[mpos++];
            }
        }
        pos += (size_t)seq[i];
        if (i == reiv_after) {
            /* a new IV in the middle of a stream (one key, a new IV per message): buffered keystream of the old counter is dropped */
            int iv2 = (iv + 2) % nivs;
            ok &= a->setIV(IVS[iv2], 16);
            ctr_set_counter(CK_S128, &co, IVS[iv2], 16);
            memcpy(mctr, IVS[iv2], 16); mpos = 16;
        }
        if (i == rekey_after) {
            /* key change in the middle of the stream, no new IV: both sides must continue the same way */
            ok &= a->setKey(KEYS[!(cls & 1)], (size_t)CTR_KLEN[cls]);
            if (CTR_TWEAKED[cls]) { ctr_set_tweaked_key(CK_S128, &co, KEYS[!(cls & 1)], (unsigned)CTR_KLEN[cls]); skinny128_set_tweaked_key(&mtk, KEYS[!(cls & 1)], (unsigned)CTR_KLEN[cls]); }
            else { ctr_set_key(CK_S128, &co, KEYS[!(cls & 1)], (unsigned)CTR_KLEN[cls], 0); skinny128_set_key(&mk, KEYS[!(cls & 1)], (unsigned)CTR_KLEN[cls]); }
            mpos = 16;     /* buffered keystream of the old key is discarded, the counter runs on */
        }
    }
    ctr_cleanup(CK_S128, &co);
    ++ctr_seqs; ++g_cnt.evaluations;
    distinct_add_u64(fnv1a(oa, pos, fnv1a(seq, sizeof(int) * (size_t)n, (uint64_t)(cls * 100 + iv) + (uint64_t)(csize * 7 + cswhen) * 1000)));
    if (!ok || memcmp(oa, oc, pos) != 0) {
        char sig[160], cd[200]; size_t o = (size_t)snprintf(cd, sizeof(cd), "c19c %d %d %d %d %d", cls, iv, rekey_after + 100 * (reiv_after + 1), csize, cswhen), d = 0;
        for (i = 0; i < n; ++i) o += (size_t)snprintf(cd + o, sizeof(cd) - o, " %d", seq[i]);
        while (d < pos && oa[d] == oc[d]) ++d;
        snprintf(sig, sizeof(sig), "C19/CTR<%s>/%s%s", VNAME[cls], !ok ? "return-values" : (reiv_after >= 0 ? "stream-after-mid-stream-setIV" : (rekey_after >= 0 ? "stream-after-mid-stream-setKey" : "stream")), csize != 16 ? "/short-counter" : (cswhen != 1 ? "/counter-size-set-early" : ""));
        violation(sig, cd, "CTR<%s> with IV %s, setCounterSize(%d) %s: %s (first differing byte %zu of %zu)", VNAME[cls], hexs(IVS[iv], 16), csize,
                  cswhen == 0 ? "before setKey" : (cswhen == 1 ? "after setIV" : "between setKey and setIV"),
                  ok ? (csize == 16 ? "output differs from skinny128_ctr_encrypt on the generic back end" : "output differs from in xor E(c_i) with the C library's block function, c_i incremented in the last bytes only")
                     : "setKey/setIV/setCounterSize return values wrong", d, pos);
    }
}

static const int CSIZES[5] = {16, 1, 2, 4, 15};
static void ctr_dfs(int cls, int iv, int *seq, int n, int consumed, int maxd)
{
    int i, cs, w;
    if (n > 0) for (cs = 0; cs < 5; ++cs) for (w = 0; w < 3; ++w) {
        if (CSIZES[cs] != 16 && n == 3 && !tier_thorough() && w == 2) continue;
        ctr_sequence(cls, iv, seq, n, -1, CSIZES[cs], w);
        if (n >= 2) ctr_sequence(cls, iv, seq, n, 0, CSIZES[cs], w);
        if (n >= 2 && w == 1) { ctr_sequence(cls, iv, seq, n, -1, CSIZES[cs], w, 0); if (n >= 3) ctr_sequence(cls, iv, seq, n, -1, CSIZES[cs], w, 1); }
    }
    if (n >= maxd || consumed > 50) return;
    for (i = 0; i < 10; ++i) { seq[n] = CLENS[i]; ctr_dfs(cls, iv, seq, n + 1, consumed + CLENS[i], maxd); }
}

static void run_ctr(void)
{
    int cls, iv, k, seq[8], job = 0;
    nivs = 0;
    memset(IVS[nivs++], 0, 16); memset(IVS[nivs++], 0xFF, 16);
    { static const uint8_t suite[16] = {0x01,0x23,0x45,0x67,0x89,0xab,0xcd,0xef,0x01,0x23,0x45,0x67,0x89,0xab,0xcd,0xef}; memcpy(IVS[nivs++], suite, 16); }
    for (k = 1; k < 16; ++k) { memset(IVS[nivs], 0, 16); memset(IVS[nivs] + 16 - k, 0xFF, (size_t)k); ++nivs; }
    memset(IVS[nivs], 0xFF, 16); IVS[nivs++][15] = 0xFE;
    if (g_opts.replay) {
        int n = 0, rk, cs, w; const char *p = g_opts.replay + 5; cls = atoi(p); p = strchr(p, ' ') + 1; iv = atoi(p); p = strchr(p, ' ') + 1; rk = atoi(p);
        p = strchr(p, ' ') + 1; cs = atoi(p); p = strchr(p, ' ') + 1; w = atoi(p);
        while ((p = strchr(p, ' ')) != NULL) { ++p; seq[n++] = atoi(p); if (n >= 8) break; }
        { int ri = -1; if (rk >= 99) { ri = (rk + 1) / 100 - 1; rk = rk - 100 * (ri + 1); } ctr_sequence(cls, iv, seq, n, rk, cs, w, ri); }
        return;
    }
    for (cls = 0; cls < 5; ++cls) for (iv = 0; iv < nivs; ++iv, ++job) {
        if (job % g_opts.nshards != g_opts.shard) continue;
        if (!tier_thorough() && cls > 0 && iv > 2 && iv != 5 && iv != nivs - 1) continue;
        ctr_dfs(cls, iv, seq, 0, 0, tier_thorough() ? 4 : 3);
    }
    note_num("ctr_sequences", (double)ctr_seqs);
    sample_add("CTR<Skinny128_256_Tweaked>: setKey(K1,16); setIV(00..00 FFFFFF); encrypt(15); encrypt(17); encrypt(33) vs skinny128_ctr (generic back end)");
}

/* clear(): whatever the object is worth afterwards, it may not depend on the key and tweak it held before.
 * For every class: setKey(Ka) [+ setTweak(Ta)], a block, clear(), then encrypt and decrypt a block - against the same
 * with Kb / Tb.  (What a cleared object computes is not specified by the C library; that it has forgotten the key is.) */
static void run_clear(void)
{
    int id, which, dir;
    for (id = 0; id < 11; ++id) {
        const Var *v = &VARS[id]; uint8_t res[2][2][16], blk[16], tmp[16];
        lcg_fill(blk, 16, 7700 + (uint32_t)id);
        for (which = 0; which < 2; ++which) {
            BlockCipher *o = fresh_of(id);
            ++g_cnt.evaluations;
            if (!o->setKey(KEYS[which], (size_t)v->klen)) { violation("C19/setKey-rejected", "", "%s.setKey returned false", VNAME[id]); delete o; continue; }
            if (v->tweaked) {
                BlockCipher *save = cur_obj[id]; cur_obj[id] = o;
                ard_set_tweak(id, KEYS[1 - which] + 7, (size_t)v->bs);
                cur_obj[id] = save;
            }
            o->encryptBlock(tmp, blk);
            o->clear();
            for (dir = 0; dir < 2; ++dir) { if (dir) o->decryptBlock(res[which][dir], blk); else o->encryptBlock(res[which][dir], blk); }
            delete o;
        }
        for (dir = 0; dir < 2; ++dir) if (memcmp(res[0][dir], res[1][dir], (size_t)v->bs) != 0) {
            char sig[120]; snprintf(sig, sizeof(sig), "C19/%s/clear-keeps-key-dependent-state", VNAME[id]);
            violation(sig, "", "%s: %s after clear() gives %s when the object held key A before and %s when it held key B: clear() left key-dependent state behind",
                      VNAME[id], dir ? "decryptBlock" : "encryptBlock", hexs(res[0][dir], (size_t)v->bs), hexs(res[1][dir], (size_t)v->bs));
        }
        distinct_add_u64(fnv1a(VNAME[id], strlen(VNAME[id]), 191));
    }
}

int main(int argc, char **argv)
{
    int i;
    parse_opts(argc, argv);
    lcg_fill(KEYS[0], 48, 4242 + (uint32_t)g_opts.seed); for (i = 0; i < 48; ++i) KEYS[1][i] = (uint8_t)(0xFF - 5 * i);
    if (!g_opts.sub) engine_error("--sub required");
    if (g_opts.replay) {
        g_opts.nshards = 1; g_opts.shard = 0;
        if (!strncmp(g_opts.replay, "c19f ", 5)) {
            int id, dir; char hx[300]; uint8_t buf[96]; Var v;
            if (sscanf(g_opts.replay, "c19f %d %d %299s", &id, &dir, hx) != 3) engine_error("bad replay");
            v = VARS[id]; v.dir = dir; fam_case(buf, (size_t)unhex(buf, sizeof(buf), hx), &v);
        } else if (!strncmp(g_opts.replay, "c19h ", 5)) run_histories();
        else if (!strncmp(g_opts.replay, "c19c ", 5)) run_ctr();
        else engine_error("bad replay");
        return finish();
    }
    if (!strcmp(g_opts.sub, "fam")) run_families();
    else if (!strcmp(g_opts.sub, "hist")) { run_histories(); if (g_opts.shard == 0) run_clear(); }
    else if (!strcmp(g_opts.sub, "ctr")) run_ctr();
    else engine_error("unknown sub");
    return finish();
}
