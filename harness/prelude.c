/*
 * Process history before the enumeration starts ("start from non-initial states").
 * A library without hidden global state behaves the same whatever was called earlier
 * in the process; a lazily built table or a cached decision makes the first caller
 * matter.  Each harness process therefore begins with one of three preludes, chosen
 * by --prelude or, by default, by the shard number:
 *   0  nothing: the enumeration's first call is the first library call of the process
 *   1  the tweakable family first (tweaked schedules, Mantis in decrypt mode, CTR
 *      objects keyed through the tweaked entry points)
 *   2  the plain family first (long plain keys, per-call Mantis tweak, parallel ECB)
 * The prelude is part of every violation record, so a replay repeats it.
 */
#include "common.h"
#include <string.h>
#include <unistd.h>
#include <sys/wait.h>
#include <skinny128-cipher.h>
#include <skinny64-cipher.h>
#include <mantis-cipher.h>
#include <skinny128-parallel.h>
#include <skinny64-parallel.h>
#include <mantis-parallel.h>

extern int g_prelude_opt, g_prelude_used;   /* common.c */

static void prelude_body(int g_prelude);
int g_prelude_crashed;      /* the prelude sequence (valid calls on zeroed objects) killed a probe process: skipped in this process */

void run_prelude(void)
{
    int g_prelude = g_prelude_opt >= 0 ? g_prelude_opt : g_opts.shard % 3;
    g_prelude_used = g_prelude;
    if (g_prelude) {
        /* the prelude is process history, not an oracle; a library that dies in it must not take the harness down:
         * it is tried in a child first */
        pid_t pid; int status = 0;
        fflush(stdout); fflush(stderr);
        pid = fork();
        if (pid == 0) { prelude_body(g_prelude); _exit(0); }
        if (pid > 0) waitpid(pid, &status, 0);
        if (pid < 0 || !WIFEXITED(status) || WEXITSTATUS(status) != 0) { g_prelude_crashed = 1; note_num("prelude_sequence_died_in_a_probe_process", 1); return; }
    }
    prelude_body(g_prelude);
}

static void prelude_body(int g_prelude)
{
    uint8_t key[48], tw[16], buf[160], out[160];
    lcg_fill(key, sizeof(key), 7001); lcg_fill(tw, sizeof(tw), 7002); lcg_fill(buf, sizeof(buf), 7003);
    if (g_prelude == 1) {
        Skinny128TweakedKey_t a; Skinny64TweakedKey_t b; MantisKey_t m;
        Skinny128CTR_t c1; Skinny64CTR_t c2; MantisCTR_t c3;
        memset(&c1, 0, sizeof(c1)); memset(&c2, 0, sizeof(c2)); memset(&c3, 0, sizeof(c3));   /* the prelude is history, not an oracle: clean objects */
        skinny128_set_tweaked_key(&a, key, 32); skinny128_set_tweak(&a, tw, 16); skinny128_ecb_encrypt(out, buf, &a.ks);
        skinny64_set_tweaked_key(&b, key, 16); skinny64_set_tweak(&b, tw, 8); skinny64_ecb_decrypt(out, buf, &b.ks);
        mantis_set_key(&m, key, 16, 7, MANTIS_DECRYPT); mantis_set_tweak(&m, tw, 8); mantis_ecb_crypt(out, buf, &m);
        if (skinny128_ctr_init(&c1)) { skinny128_ctr_set_tweaked_key(&c1, key, 16); skinny128_ctr_set_tweak(&c1, tw, 16); skinny128_ctr_set_counter(&c1, tw, 16); skinny128_ctr_encrypt(out, buf, 33, &c1); skinny128_ctr_cleanup(&c1); }
        if (skinny64_ctr_init(&c2)) { skinny64_ctr_set_tweaked_key(&c2, key, 8); skinny64_ctr_set_tweak(&c2, tw, 8); skinny64_ctr_encrypt(out, buf, 33, &c2); skinny64_ctr_cleanup(&c2); }
        if (mantis_ctr_init(&c3)) { mantis_ctr_set_key(&c3, key, 16, 5); mantis_ctr_set_tweak(&c3, tw, 8); mantis_ctr_encrypt(out, buf, 33, &c3); mantis_ctr_cleanup(&c3); }
    } else if (g_prelude == 2) {
        Skinny128Key_t a; Skinny64Key_t b; MantisKey_t m;
        Skinny128ParallelECB_t p1; Skinny64ParallelECB_t p2; MantisParallelECB_t p3;
        Skinny128CTR_t c1;
        memset(&p1, 0, sizeof(p1)); memset(&p2, 0, sizeof(p2)); memset(&p3, 0, sizeof(p3)); memset(&c1, 0, sizeof(c1));
        skinny128_set_key(&a, key, 48); skinny128_ecb_decrypt(out, buf, &a);
        skinny64_set_key(&b, key, 24); skinny64_ecb_encrypt(out, buf, &b);
        mantis_set_key(&m, key, 16, 8, MANTIS_ENCRYPT); mantis_ecb_crypt_tweaked(out, buf, tw, &m);
        if (skinny128_parallel_ecb_init(&p1)) { skinny128_parallel_ecb_set_key(&p1, key, 16); skinny128_parallel_ecb_encrypt(buf, buf, 144, &p1); skinny128_parallel_ecb_cleanup(&p1); }
        if (skinny64_parallel_ecb_init(&p2)) { skinny64_parallel_ecb_set_key(&p2, key, 8); skinny64_parallel_ecb_decrypt(buf, buf, 72, &p2); skinny64_parallel_ecb_cleanup(&p2); }
        if (mantis_parallel_ecb_init(&p3)) { mantis_parallel_ecb_set_key(&p3, key, 16, 6, MANTIS_ENCRYPT); mantis_parallel_ecb_crypt(out, buf, buf + 80, 72, &p3); mantis_parallel_ecb_cleanup(&p3); }
        if (skinny128_ctr_init(&c1)) { skinny128_ctr_set_key(&c1, key, 32); skinny128_ctr_encrypt(out, buf, 70, &c1); skinny128_ctr_cleanup(&c1); }
    }
    note_num(g_prelude == 0 ? "processes_started_cold" : (g_prelude == 1 ? "processes_started_with_tweakable_family_prelude" : "processes_started_with_plain_family_prelude"), 1);
}
