/*
 * Structured input families (DESIGN.md 3.3).  Deterministic enumeration, no
 * sampling: BYTE (every value at every position over several backgrounds), PAIR
 * (pairs of positions over an edge alphabet), BIT (runs of set bits at every bit
 * offset) and, in the thorough tier, ADJ (all 65536 value pairs on adjacent
 * positions).  R1/R2 backgrounds are fixed LCG fills derived from --seed.
 */
#include "common.h"
#include <string.h>

static const uint8_t EDGE[8] = {0x00,0x01,0x02,0x7f,0x80,0xfe,0xff,0xa5};

typedef struct {
    fam_cb cb; void *arg; uint64_t n;
} Emit;

static void emit(Emit *e, const uint8_t *buf, size_t m)
{
    if ((e->n % (uint64_t)g_opts.nshards) == (uint64_t)g_opts.shard)
        e->cb(buf, m, e->arg);
    ++e->n;
}

uint64_t fam_iterate(size_t m, const uint8_t *vec, int thorough, fam_cb cb, void *arg)
{
    uint8_t bg[5][128], buf[128];
    int nbg = 0, b;
    size_t p, q;
    unsigned v, w, i, j;
    Emit e = { cb, arg, 0 };

    if (m > sizeof(buf)) engine_error("fam_iterate: m too large");
    memset(bg[nbg++], 0, m);                                    /* Z */
    if (vec) memcpy(bg[nbg++], vec, m);                         /* V */
    else lcg_fill(bg[nbg++], m, (uint32_t)g_opts.seed + 77);
    if (thorough) {
        memset(bg[nbg++], 0xFF, m);                             /* F */
        lcg_fill(bg[nbg++], m, (uint32_t)g_opts.seed);          /* R1 */
        lcg_fill(bg[nbg++], m, (uint32_t)g_opts.seed + 1000);   /* R2 */
    }

    /* backgrounds themselves */
    for (b = 0; b < nbg; ++b) emit(&e, bg[b], m);

    /* UNIT: one aligned 4-, 8- or 16-byte unit (a row, a tweakey word, a block) all zeros or all ones on each
     * background, and the all-ones vector itself in both tiers: a whole word with a special value is what an
     * in-band marker or a "nothing to do" test would key on */
    if (!thorough) { memset(buf, 0xFF, m); emit(&e, buf, m); }
    for (b = 0; b < nbg; ++b)
        for (i = 4; i <= 16; i *= 2)
            for (p = 0; p + i <= m; p += i)
                for (v = 0; v < 2; ++v) {
                    memcpy(buf, bg[b], m);
                    memset(buf + p, v ? 0xFF : 0x00, i);
                    emit(&e, buf, m);
                }

    /* BYTE */
    for (b = 0; b < nbg; ++b)
        for (p = 0; p < m; ++p) {
            memcpy(buf, bg[b], m);
            for (v = 0; v < 256; ++v) { buf[p] = (uint8_t)v; emit(&e, buf, m); }
        }

    /* PAIR over the edge alphabet */
    for (b = 0; b < nbg; ++b)
        for (p = 0; p < m; ++p)
            for (q = p + 1; q < m; ++q) {
                if (!thorough) {
                    size_t d = q - p;
                    if (!(d == 1 || d == 3 || d == 4 || d == 7 || d == 8 || d == 15 || d == 16 || q == m - 1 - p))   /* 7, 15: first and last byte of an 8/16-byte unit (rotations wrap there) */
                        continue;
                }
                memcpy(buf, bg[b], m);
                for (i = 0; i < 8; ++i)
                    for (j = 0; j < 8; ++j) {
                        buf[p] = EDGE[i]; buf[q] = EDGE[j];
                        emit(&e, buf, m);
                    }
            }

    /* BIT: runs of 1..8 set bits (xor-ed into the background) at every bit offset */
    for (b = 0; b < nbg && b < 2; ++b)
        for (w = 1; w <= 8; ++w)
            for (v = 0; v + w <= m * 8; ++v) {
                memcpy(buf, bg[b], m);
                for (i = v; i < v + w; ++i) buf[i / 8] ^= (uint8_t)(0x80 >> (i % 8));
                emit(&e, buf, m);
            }

    /* ADJ: every value pair on adjacent positions */
    if (thorough)
        for (b = 0; b < 2; ++b)
            for (p = 0; p + 1 < m; ++p) {
                memcpy(buf, bg[b], m);
                for (v = 0; v < 256; ++v)
                    for (w = 0; w < 256; ++w) {
                        buf[p] = (uint8_t)v; buf[p+1] = (uint8_t)w;
                        emit(&e, buf, m);
                    }
            }
    return e.n;
}
