/*
 * apimc closure worlds for stateful key schedules:
 *   C03 part ii - Mantis schedule under {set_key(mode), set_tweak, swap_modes}, and the
 *                 Mantis parallel object under {set_key(mode), swap_modes};
 *   C04         - tweakable SKINNY schedules under {set_tweaked_key, set_tweak}, directly
 *                 and through the CTR tweak API.
 * The reachable sets are finite and are explored to a fixpoint: the invariant is
 * evaluated on every reachable state and every outgoing transition, which makes the
 * result a statement about all finite histories over the alphabet.
 */
#include "common.h"
#include "alloc.h"
#include "obj.h"
#include "mc.h"
#include <string.h>
#include <stddef.h>
#include <stdlib.h>

/* what a schedule object holds before its first key-setting call (and what the oracles' fresh objects hold) */
#define PRIOR_BYTE (g_paint < 0 ? 0xA5 : g_paint)

static uint8_t KEYS[2][48];

/* =========================================================== Mantis schedule */

enum { M_KEY, M_TWEAK, M_SWAP, M_BADTWEAK, M_USE };
typedef struct { int type, a, b, c; } MOp;
static MOp m_ops[64]; static int m_nops;
static uint8_t M_TW[12][8]; static int M_TWNULL[12]; static int m_ntw;
static int m_par;   /* 0: MantisKey_t world, 1: parallel object world */
static int m_be;    /* back end of the parallel object */

static struct {
    MantisKey_t ks;
    ParObj po;
    int keyed, ki, rounds, mode;     /* mode: 1 = encrypt */
    uint8_t tweak[8];
} MW;

static void m_build(void)
{
    int k, r, md, i;
    m_nops = 0; m_ntw = 0;
    memset(M_TW[m_ntw], 0, 8); M_TWNULL[m_ntw++] = 0;
    memset(M_TW[m_ntw], 0xFF, 8); M_TWNULL[m_ntw++] = 0;
    lcg_fill(M_TW[m_ntw], 8, 61); M_TWNULL[m_ntw++] = 0;
    lcg_fill(M_TW[m_ntw], 8, 62); M_TWNULL[m_ntw++] = 0;
    memset(M_TW[m_ntw], 0, 8); M_TWNULL[m_ntw++] = 1;
    /* tweaks that share exactly one half with another one of the list (consecutive sector numbers do): R1's first
     * half with R2's second, R1's second half after zeros, R1's first half before zeros */
    lcg_fill(M_TW[m_ntw], 8, 61); { uint8_t t2[8]; lcg_fill(t2, 8, 62); memcpy(M_TW[m_ntw] + 4, t2 + 4, 4); } M_TWNULL[m_ntw++] = 0;
    lcg_fill(M_TW[m_ntw], 8, 61); memset(M_TW[m_ntw], 0, 4); M_TWNULL[m_ntw++] = 0;
    lcg_fill(M_TW[m_ntw], 8, 61); memset(M_TW[m_ntw] + 4, 0, 4); M_TWNULL[m_ntw++] = 0;
    for (k = 0; k < 2; ++k) for (r = 5; r <= 8; ++r) for (md = 0; md < 2; ++md) {
        m_ops[m_nops].type = M_KEY; m_ops[m_nops].a = k; m_ops[m_nops].b = r; m_ops[m_nops].c = md; ++m_nops;
    }
    if (!m_par) for (i = 0; i < m_ntw; ++i) { m_ops[m_nops].type = M_TWEAK; m_ops[m_nops].a = i; ++m_nops; }
    m_ops[m_nops].type = M_SWAP; ++m_nops;
    /* a use that names its own tweak: the schedule is a const argument, its stored tweak must survive */
    if (!m_par) for (i = 1; i <= 2; ++i) { m_ops[m_nops].type = M_USE; m_ops[m_nops].a = i; ++m_nops; }
    if (!m_par) {
        int nul;
        for (nul = 0; nul < 2; ++nul) { m_ops[m_nops].type = M_BADTWEAK; m_ops[m_nops].a = 7; m_ops[m_nops].c = nul; ++m_nops; m_ops[m_nops].type = M_BADTWEAK; m_ops[m_nops].a = 9; m_ops[m_nops].c = nul; ++m_nops; }
    }
}

static void m_reset(void)
{
    arena_reset();
    memset(&MW, 0, sizeof(MW));
    memset(&MW.ks, PRIOR_BYTE, sizeof(MW.ks));      /* the caller's schedule object is uninitialised memory before set_key */
    if (m_par && !par_init(CK_MANTIS, m_be, &MW.po)) engine_error("par init failed");
}

static int m_enabled(int op)
{
    if (m_ops[op].type == M_KEY) return 1;
    return MW.keyed;    /* tweak / swap on a schedule that was never keyed is not a defined use */
}

static void m_opname(int op, char *buf, size_t n)
{
    const MOp *o = &m_ops[op];
    switch (o->type) {
    case M_KEY: snprintf(buf, n, "set_key(K%d,rounds=%d,%s)", o->a, o->b, o->c ? "ENCRYPT" : "DECRYPT"); break;
    case M_TWEAK: snprintf(buf, n, "set_tweak(%s)", M_TWNULL[o->a] ? "NULL" : hexs(M_TW[o->a], 8)); break;
    case M_SWAP: snprintf(buf, n, "swap_modes"); break;
    case M_USE: snprintf(buf, n, "ecb_crypt_tweaked(tweak %s)", hexs(M_TW[o->a], 8)); break;
    default: snprintf(buf, n, "INVALID set_tweak(%ssize %d)", o->c ? "NULL, " : "", o->a); break;
    }
}

static size_t m_image(uint8_t *buf, size_t cap)
{
    if (m_par) return par_image(CK_MANTIS, &MW.po, buf, cap);
    memcpy(buf, &MW.ks, sizeof(MW.ks));
    return sizeof(MW.ks);
}

static void m_report(const char *cls, int op, const char *fmt, ...)
{
    char sig[200], detail[1200]; va_list ap;
    va_start(ap, fmt); vsnprintf(detail, sizeof(detail), fmt, ap); va_end(ap);
    snprintf(sig, sizeof(sig), "C03/mantis-%s/%s/%s", m_par ? "parallel" : "schedule", cls,
             m_ops[op].type == M_KEY ? "set_key" : (m_ops[op].type == M_TWEAK ? "set_tweak" : (m_ops[op].type == M_SWAP ? "swap_modes" : (m_ops[op].type == M_USE ? "ecb_crypt_tweaked" : "invalid-set_tweak"))));
    violation(sig, mc_casedesc(), "%s | history: %s", detail, mc_history_text());
}

static void m_apply(int op, int check)
{
    const MOp *o = &m_ops[op];
    int r = 1;
    uint8_t before[256]; size_t bl = 0;
    if (check && o->type == M_BADTWEAK) bl = m_image(before, sizeof(before));
    switch (o->type) {
    case M_KEY:
        if (m_par) r = par_set_key(CK_MANTIS, &MW.po, KEYS[o->a], 16, (unsigned)o->b, o->c ? MANTIS_ENCRYPT : MANTIS_DECRYPT);
        else LIB(r = mantis_set_key(&MW.ks, KEYS[o->a], 16, (unsigned)o->b, o->c ? MANTIS_ENCRYPT : MANTIS_DECRYPT));
        MW.keyed = 1; MW.ki = o->a; MW.rounds = o->b; MW.mode = o->c; memset(MW.tweak, 0, 8);
        break;
    case M_TWEAK:
        LIB(r = mantis_set_tweak(&MW.ks, M_TWNULL[o->a] ? NULL : M_TW[o->a], 8));
        memcpy(MW.tweak, M_TW[o->a], 8);
        break;
    case M_SWAP:
        if (m_par) par_swap_modes(&MW.po); else LIB(mantis_swap_modes(&MW.ks));
        MW.mode = !MW.mode;
        break;
    case M_USE: {
        uint8_t blk[8], ref[8], real[8], b4[256], af[256]; size_t l1 = m_image(b4, sizeof(b4)), l2; int p;
        for (p = 0; p < 8; ++p) {
            lcg_fill(blk, 8, 310 + (uint32_t)p); blk[p] = (uint8_t)(0x11 * p);
            if (MW.mode) ref_mantis_encrypt(KEYS[MW.ki], M_TW[o->a], MW.rounds, blk, ref);
            else ref_mantis_decrypt(KEYS[MW.ki], M_TW[o->a], MW.rounds, blk, ref);
            LIB(mantis_ecb_crypt_tweaked(real, blk, M_TW[o->a], &MW.ks));
            ++g_cnt.evaluations;
            if (check && memcmp(real, ref, 8) != 0) { m_report("behaviour", op, "per-call tweak %s, block %s: got %s, specification %s", hexs(M_TW[o->a], 8), hexs(blk, 8), hexs(real, 8), hexs(ref, 8)); break; }
        }
        l2 = m_image(af, sizeof(af));
        if (check && (l1 != l2 || memcmp(b4, af, l1) != 0)) m_report("use-changed-schedule", op, "the (const) schedule changed during mantis_ecb_crypt_tweaked: before %s after %s", hexs(b4, l1), hexs(af, l2));
        break; }
    default:
        LIB(r = mantis_set_tweak(&MW.ks, o->c ? NULL : M_TW[1], (unsigned)o->a));
        break;
    }
    if (!check) return;
    if (o->type == M_BADTWEAK) {
        uint8_t after[256]; size_t al = m_image(after, sizeof(after));
        if (r != 0) m_report("return-value", op, "invalid tweak size accepted (returned %d)", r);
        if (al != bl || memcmp(before, after, al) != 0) m_report("rejected-call-changed-schedule", op, "schedule image changed by a rejected call");
        return;
    }
    if (r != 1) m_report("return-value", op, "valid call returned %d", r);
    /* (a) image == freshly keyed in the current mode + last tweak */
    {
        uint8_t img[256], fresh[256]; size_t il = m_image(img, sizeof(img)), fl;
        if (!m_par) {
            MantisKey_t f; memset(&f, PRIOR_BYTE, sizeof(f));
            mantis_set_key(&f, KEYS[MW.ki], 16, (unsigned)MW.rounds, MW.mode ? MANTIS_ENCRYPT : MANTIS_DECRYPT);
            mantis_set_tweak(&f, MW.tweak, 8);
            memcpy(fresh, &f, sizeof(f)); fl = sizeof(f);
            if (fl != il || memcmp(img, fresh, il) != 0)
                m_report("differs-from-fresh-schedule", op, "schedule image differs from set_key(%s)+set_tweak(last): got %s want %s",
                         MW.mode ? "ENCRYPT" : "DECRYPT", hexs(img, il), hexs(fresh, fl));
        } else {
            const MantisKey_t *ctx = MW.po.raw.ctx; MantisKey_t f; memset(&f, PRIOR_BYTE, sizeof(f));
            mantis_set_key(&f, KEYS[MW.ki], 16, (unsigned)MW.rounds, MW.mode ? MANTIS_ENCRYPT : MANTIS_DECRYPT);
            if (memcmp(ctx, &f, offsetof(MantisKey_t, rounds) + sizeof(unsigned)) != 0) m_report("differs-from-fresh-schedule", op, "parallel object's schedule differs from a fresh set_key in the current mode");
        }
    }
    /* (b) behaviour == specification in the current mode with the last tweak, over a block family */
    {
        uint8_t blk[8], ref[8], real[64], tw8[64], in8[64]; int p, v;
        uint8_t b4[256], af[256]; size_t l1 = m_image(b4, sizeof(b4)), l2;
        for (p = 0; p < 8; ++p) for (v = 0; v < 256; v += (tier_thorough() ? 1 : 5)) {
            lcg_fill(blk, 8, 300); blk[p] = (uint8_t)v;
            if (MW.mode) ref_mantis_encrypt(KEYS[MW.ki], MW.tweak, MW.rounds, blk, ref);
            else ref_mantis_decrypt(KEYS[MW.ki], MW.tweak, MW.rounds, blk, ref);
            if (!m_par) { LIB(mantis_ecb_crypt(real, blk, &MW.ks)); }
            else { memcpy(in8, blk, 8); memcpy(tw8, MW.tweak, 8); par_crypt(CK_MANTIS, &MW.po, real, in8, tw8, 8, 0); }
            ++g_cnt.evaluations;
            if (memcmp(real, ref, 8) != 0) {
                m_report("behaviour", op, "block %s under mode %s tweak %s: got %s, specification %s", hexs(blk, 8), MW.mode ? "ENCRYPT" : "DECRYPT",
                         hexs(MW.tweak, 8), hexs(real, 8), hexs(ref, 8));
                return;
            }
        }
        l2 = m_image(af, sizeof(af));   /* the data calls take the schedule / object as const */
        if (l1 != l2 || memcmp(b4, af, l1) != 0) m_report("use-changed-schedule", op, "the schedule image changed during data calls");
    }
}

static size_t m_canon(uint8_t *buf, size_t cap)
{
    size_t o = m_image(buf, cap);
    memcpy(buf + o, &MW.keyed, sizeof(int) * 4 + 8); o += sizeof(int) * 4 + 8;
    return o;
}

/* =========================================================== tweakable SKINNY schedules */

enum { T_TKEY, T_TWEAK, T_BADTWEAK, T_ENC, T_BADKEY, T_SELFTW };
typedef struct { int type, a, b; } TOp;
static TOp t_ops[5000]; static int t_nops;
static uint8_t (*T_TW)[16]; static int *T_TWLEN, *T_TWNULL; static int t_ntw;
static int t_nbase, t_prev_zero;
static const void *t_sched(size_t *len, int *rounds);
static size_t t_defined_image(const void *k, uint8_t *buf);
static Cipher t_c; static int t_bs, t_ctr, t_be;   /* t_ctr: through the CTR API on back end t_be */
static int t_noimage;   /* CTR kind whose private layout is not recognised: only the oracles that need no schedule image (return values, the stream) */

static struct {
    Skinny128TweakedKey_t k128;
    Skinny64TweakedKey_t k64;
    CtrObj co;
    int keyed, ki, klen;
    uint8_t tweak[16];
    int lastop;          /* last tweak operation (not part of the canonical key: determined by the tweak) */
    int nenc, blocks, ksoff;   /* CTR kinds: data calls so far, keystream blocks opened, offset in the current block */
    int ntw, nafter;           /* tweak operations so far / since the first data call (bounds the data-call patterns) */
} TW;

static void t_addtw(const uint8_t *t, int len, int isnull)
{
    memset(T_TW[t_ntw], 0, 16);
    if (t) memcpy(T_TW[t_ntw], t, (size_t)len);
    T_TWLEN[t_ntw] = len; T_TWNULL[t_ntw] = isnull; ++t_ntw;
}

static void t_build(void)
{
    int B = t_bs, k, l, i, p, v;
    uint8_t t[16];
    if (!T_TW) { T_TW = malloc(5000 * 16); T_TWLEN = malloc(5000 * sizeof(int)); T_TWNULL = malloc(5000 * sizeof(int)); }
    t_ntw = 0; t_nops = 0;
    memset(t, 0, 16); t_addtw(t, B, 0);
    memset(t, 0xFF, 16); t_addtw(t, B, 0);
    lcg_fill(t, 16, 71); t_addtw(t, B, 0);
    lcg_fill(t, 16, 72); t_addtw(t, B, 0);
    for (l = 1; l < B; ++l) { lcg_fill(t, 16, 100 + (uint32_t)l); t_addtw(t, l, 0); }
    /* short tweaks that are prefixes of the full-length R1 (the same buffer passed once with the full and once with a
     * smaller size), and a short all-ones one */
    lcg_fill(t, 16, 71); t_addtw(t, 1, 0); t_addtw(t, B / 2, 0); t_addtw(t, B - 1, 0);
    memset(t, 0xFF, 16); t_addtw(t, B / 2, 0);
    t_addtw(NULL, 1, 1); t_addtw(NULL, B, 1);
    t_nbase = t_ntw;
    if (tier_thorough())            /* BYTE over the tweak */
        for (p = 0; p < B; ++p) for (v = 1; v < 256; ++v) { memset(t, 0, 16); t[p] = (uint8_t)v; t_addtw(t, B, 0); }
    for (k = 0; k < 2; ++k) for (l = 1; l <= 2; ++l) { t_ops[t_nops].type = T_TKEY; t_ops[t_nops].a = k; t_ops[t_nops].b = l * B; ++t_nops; }
    for (i = 0; i < t_ntw; ++i) { t_ops[t_nops].type = T_TWEAK; t_ops[t_nops].a = i; ++t_nops; }
    t_ops[t_nops].type = T_BADTWEAK; t_ops[t_nops].a = 0; t_ops[t_nops].b = 0; ++t_nops;
    t_ops[t_nops].type = T_BADTWEAK; t_ops[t_nops].a = B + 1; t_ops[t_nops].b = 0; ++t_nops;
    t_ops[t_nops].type = T_BADTWEAK; t_ops[t_nops].a = 0; t_ops[t_nops].b = 1; ++t_nops;         /* NULL pointer with a bad length */
    t_ops[t_nops].type = T_BADTWEAK; t_ops[t_nops].a = B + 1; t_ops[t_nops].b = 1; ++t_nops;
    /* a re-key that must be refused (too short, too long, the three-block size of the plain API): nothing may change, the remembered tweak included */
    t_ops[t_nops].type = T_BADKEY; t_ops[t_nops].a = B - 1; ++t_nops;
    t_ops[t_nops].type = T_BADKEY; t_ops[t_nops].a = 2 * B + 1; ++t_nops;
    t_ops[t_nops].type = T_BADKEY; t_ops[t_nops].a = 3 * B; ++t_nops;
    if (!t_ctr) {
        /* the tweak argument points at the schedule's own (public) tweak member: "apply the stored tweak again" with the
         * full length, "keep its first half" with half the length - the argument is an input like any other */
        t_ops[t_nops].type = T_SELFTW; t_ops[t_nops].a = B; ++t_nops;
        t_ops[t_nops].type = T_SELFTW; t_ops[t_nops].a = B / 2; ++t_nops;
    }
    if (t_ctr) {
        /* data calls through the CTR object, so that a tweak change meets buffered keystream: after the change the
         * stream must continue with the next counter block under the key and the latest tweak only */
        static const int ENC[] = {1, 0, 2, 5};   /* 1, B+1, 2B+8, 5B+5 */
        for (i = 0; i < 4; ++i) { t_ops[t_nops].type = T_ENC; t_ops[t_nops].a = ENC[i] == 1 ? 1 : (ENC[i] == 0 ? B + 1 : ENC[i] * B + (ENC[i] == 2 ? 8 : 5)); ++t_nops; }
    }
}

static void t_reset(void)
{
    arena_reset();
    memset(&TW, 0, sizeof(TW));
    memset(&TW.k128, PRIOR_BYTE, sizeof(TW.k128)); memset(&TW.k64, PRIOR_BYTE, sizeof(TW.k64));   /* uninitialised memory before set_tweaked_key */
    TW.ksoff = t_bs;
    if (t_ctr && !ctr_init(t_c, t_be, &TW.co)) engine_error("ctr init failed");
    /* the stream starts at FF..FE: the lane counters of the first batch wrap, and winding them back at a tweak change
     * inside the batch borrows through every byte */
    if (t_ctr) { uint8_t c0[16]; memset(c0, 0xFF, 16); c0[t_bs - 1] = 0xFE; if (ctr_set_counter(t_c, &TW.co, c0, (unsigned)t_bs) != 1) engine_error("ctr set_counter failed"); }
}

/* The CTR kinds read the tweaked schedule at the start of the private context.  That
 * layout assumption is validated here; if it does not hold (private layout changed),
 * the CTR kinds are skipped and the evidence says so - never a verdict. */
static int t_validate_layout(void)
{
    static uint8_t a[1024], b[1024]; size_t al, bl, slen; int rounds; const void *s;
    Skinny128TweakedKey_t f128; Skinny64TweakedKey_t f64;
    t_reset();
    if (ctr_set_tweaked_key(t_c, &TW.co, KEYS[0], (unsigned)t_bs) != 1) return 0;
    if (!arena_find(TW.co.raw.ctx)) return 0;
    s = t_sched(&slen, &rounds);
    if ((const uint8_t *)s + slen > arena_find(TW.co.raw.ctx)->ptr + arena_find(TW.co.raw.ctx)->size) return 0;
    if (rounds < 30 || rounds > 56) return 0;
    al = t_defined_image(s, a);
    if (t_c == CK_S128) { memset(&f128, PRIOR_BYTE, sizeof(f128)); skinny128_set_tweaked_key(&f128, KEYS[0], 16); bl = t_defined_image(&f128, b); }
    else { memset(&f64, PRIOR_BYTE, sizeof(f64)); skinny64_set_tweaked_key(&f64, KEYS[0], 8); bl = t_defined_image(&f64, b); }
    if (al == bl && memcmp(a, b, al) == 0) return 1;
    /* The tweaked image is not there.  Either the layout changed or the tweaked-key setter of this back end is wrong;
     * the plain key setter fills the same schedule member, so it tells the two apart: if the plain image is where the
     * layout says, the layout is right and the kind runs (and reports what the tweaked setter does). */
    t_reset();
    if (ctr_set_key(t_c, &TW.co, KEYS[0], (unsigned)t_bs, 0) != 1 || !arena_find(TW.co.raw.ctx)) return 0;
    s = t_sched(&slen, &rounds);
    if (t_c == CK_S128) { Skinny128Key_t p; const Skinny128TweakedKey_t *k = s; memset(&p, PRIOR_BYTE, sizeof(p)); skinny128_set_key(&p, KEYS[0], 16);
                          return k->ks.rounds == p.rounds && memcmp(k->ks.schedule, p.schedule, p.rounds * sizeof(p.schedule[0])) == 0; }
    else { Skinny64Key_t p; const Skinny64TweakedKey_t *k = s; memset(&p, PRIOR_BYTE, sizeof(p)); skinny64_set_key(&p, KEYS[0], 8);
           return k->ks.rounds == p.rounds && memcmp(k->ks.schedule, p.schedule, p.rounds * sizeof(p.schedule[0])) == 0; }
}

static int t_enabled(int op)
{
    if (t_ops[op].type == T_TKEY) return TW.nenc == 0 && (!TW.keyed || !tier_thorough());   /* thorough: one key per history keeps the BYTE closure tractable */
    if (!TW.keyed) return 0;
    /* data-call pattern (CTR kinds): [<= 1 tweak] data [exactly 1 tweak] data - enough for a tweak change to meet
     * buffered keystream of every batch position without multiplying the closure */
    if (t_ops[op].type == T_ENC) return TW.lastop < t_nbase && ((TW.nenc == 0 && TW.ntw <= 1) || (TW.nenc == 1 && TW.nafter == 1));
    if (t_ops[op].type == T_BADKEY) return TW.nenc == 0 && TW.lastop < t_nbase;
    if (t_ops[op].type == T_SELFTW) return TW.lastop < t_nbase;
    if (TW.nenc == 2 || (TW.nenc == 1 && TW.nafter >= 1)) return 0;
    if (TW.nenc == 1 && t_ops[op].type == T_TWEAK && t_ops[op].a >= t_nbase) return 0;
    /* thorough BYTE tweaks: from a BYTE-tweak state every base operation is taken, but of the 4080 other
     * BYTE tweaks only those at the same position (every value) and the 0xFF ones at every position -
     * the update is xor-out / xor-in per byte, so BYTE x BYTE at unrelated positions adds nothing */
    if (t_ops[op].type == T_TWEAK && t_ops[op].a >= t_nbase && TW.lastop >= t_nbase) {
        int pa = (t_ops[op].a - t_nbase) / 255, pb = (TW.lastop - t_nbase) / 255, va = (t_ops[op].a - t_nbase) % 255 + 1;
        return pa == pb || va == 0xFF;
    }
    return 1;
}

static void t_opname(int op, char *buf, size_t n)
{
    const TOp *o = &t_ops[op];
    switch (o->type) {
    case T_TKEY: snprintf(buf, n, "set_tweaked_key(K%d,%d)", o->a, o->b); break;
    case T_TWEAK: snprintf(buf, n, "set_tweak(%s,%d)", T_TWNULL[o->a] ? "NULL" : hexs(T_TW[o->a], (size_t)T_TWLEN[o->a]), T_TWLEN[o->a]); break;
    case T_ENC: snprintf(buf, n, "ctr_encrypt(%d)", o->a); break;
    case T_BADKEY: snprintf(buf, n, "INVALID set_tweaked_key(size %d)", o->a); break;
    case T_SELFTW: snprintf(buf, n, "set_tweak(the schedule's own tweak member,%d)", o->a); break;
    default: snprintf(buf, n, "INVALID set_tweak(%ssize %d)", o->b ? "NULL, " : "", o->a); break;
    }
}

/* schedule under test and its defined extent */
static const void *t_sched(size_t *len, int *rounds)
{
    if (t_c == CK_S128) {
        const Skinny128TweakedKey_t *k = t_ctr ? (const Skinny128TweakedKey_t *)TW.co.raw.ctx : &TW.k128;
        *rounds = (int)k->ks.rounds; *len = sizeof(*k); return k;
    } else {
        const Skinny64TweakedKey_t *k = t_ctr ? (const Skinny64TweakedKey_t *)TW.co.raw.ctx : &TW.k64;
        *rounds = (int)k->ks.rounds; *len = sizeof(*k); return k;
    }
}

/* image of the defined part of a tweaked schedule: rounds, schedule[0..rounds), tweak */
static size_t t_defined_image(const void *k, uint8_t *buf)
{
    size_t o = 0;
    if (t_c == CK_S128) {
        const Skinny128TweakedKey_t *s = k; unsigned r = s->ks.rounds <= SKINNY128_MAX_ROUNDS ? s->ks.rounds : SKINNY128_MAX_ROUNDS;
        memcpy(buf + o, &s->ks.rounds, sizeof(unsigned)); o += sizeof(unsigned);
        memcpy(buf + o, s->ks.schedule, r * sizeof(s->ks.schedule[0])); o += r * sizeof(s->ks.schedule[0]);
        memcpy(buf + o, s->tweak, 16); o += 16;
    } else {
        const Skinny64TweakedKey_t *s = k; unsigned r = s->ks.rounds <= SKINNY64_MAX_ROUNDS ? s->ks.rounds : SKINNY64_MAX_ROUNDS;
        memcpy(buf + o, &s->ks.rounds, sizeof(unsigned)); o += sizeof(unsigned);
        memcpy(buf + o, s->ks.schedule, r * sizeof(s->ks.schedule[0])); o += r * sizeof(s->ks.schedule[0]);
        memcpy(buf + o, s->tweak, 8); o += 8;
    }
    return o;
}

static void t_report(const char *cls, int op, const char *fmt, ...)
{
    char sig[200], detail[1200]; va_list ap;
    const TOp *o = &t_ops[op];
    va_start(ap, fmt); vsnprintf(detail, sizeof(detail), fmt, ap); va_end(ap);
    snprintf(sig, sizeof(sig), "C04/%s%s/%s/%s", cipher_name(t_c), t_ctr ? "-ctr" : "", cls,
             o->type == T_ENC ? "ctr_encrypt" : o->type == T_TKEY ? "set_tweaked_key" : (o->type == T_TWEAK ? (T_TWNULL[o->a] ? "set_tweak(NULL)" : (T_TWLEN[o->a] < t_bs ? "set_tweak(short)" : "set_tweak")) : (o->type == T_BADKEY ? "invalid-set_tweaked_key" : (o->type == T_SELFTW ? "set_tweak(own member)" : "invalid-set_tweak"))));
    violation(sig, mc_casedesc(), "%s | history: %s", detail, mc_history_text());
}

/* memo of reference outputs: the same (key, tweak, block) recurs on many transitions */
static void t_ref(int dir, const uint8_t *blk, uint8_t *out)
{
    static struct { uint64_t h; uint8_t out[16]; } *memo; const size_t N = 1u << 18;
    uint64_t h; size_t slot;
    if (!memo) memo = calloc(N, sizeof(*memo));
    {
        /* the whole key is hashed as one buffer with a fixed seed (FNV seeds that differ in a
         * few low bits collide with inputs whose first byte differs by the same bits) */
        uint8_t kb[40];
        kb[0] = (uint8_t)t_c; kb[1] = (uint8_t)dir; kb[2] = (uint8_t)TW.ki; kb[3] = (uint8_t)TW.klen;
        memcpy(kb + 4, TW.tweak, 16); memcpy(kb + 20, blk, 16); memset(kb + 36, 0x5A, 4);
        h = fnv1a(kb, sizeof(kb), FNV_INIT);
        h ^= fnv1a(kb, sizeof(kb), 0x9ae16a3b2f90404fULL) << 1;
    }
    if (!h) h = 1;
    slot = (size_t)(h >> 11) & (N - 1);
    if (memo && memo[slot].h == h) { memcpy(out, memo[slot].out, 16); return; }
    if (dir) ref_skinny_tweak_decrypt(t_bs, KEYS[TW.ki], TW.klen, TW.tweak, blk, out);
    else ref_skinny_tweak_encrypt(t_bs, KEYS[TW.ki], TW.klen, TW.tweak, blk, out);
    if (memo) { memo[slot].h = h; memcpy(memo[slot].out, out, 16); }
}

static void t_blocks(const void *ks, int dir, const uint8_t *in, uint8_t *out)
{
    if (t_c == CK_S128) { const Skinny128TweakedKey_t *k = ks; if (dir) skinny128_ecb_decrypt(out, in, &k->ks); else skinny128_ecb_encrypt(out, in, &k->ks); }
    else { const Skinny64TweakedKey_t *k = ks; if (dir) skinny64_ecb_decrypt(out, in, &k->ks); else skinny64_ecb_encrypt(out, in, &k->ks); }
}

static void t_apply(int op, int check)
{
    const TOp *o = &t_ops[op];
    int r = 1;
    static uint8_t before[1024]; size_t bl = 0; size_t slen; int rounds;
    if (check && !t_noimage && (o->type == T_BADTWEAK || o->type == T_BADKEY)) { const void *s = t_sched(&slen, &rounds); memcpy(before, s, slen); bl = slen; }
    switch (o->type) {
    case T_TKEY:
        if (t_ctr) r = ctr_set_tweaked_key(t_c, &TW.co, KEYS[o->a], (unsigned)o->b);
        else if (t_c == CK_S128) LIB(r = skinny128_set_tweaked_key(&TW.k128, KEYS[o->a], (unsigned)o->b));
        else LIB(r = skinny64_set_tweaked_key(&TW.k64, KEYS[o->a], (unsigned)o->b));
        TW.keyed = 1; TW.ki = o->a; TW.klen = o->b; memset(TW.tweak, 0, 16); TW.lastop = 0;
        TW.ksoff = t_bs;
        break;
    case T_ENC: {
        static uint8_t in[160], out[160], ks[16]; int i;
        lcg_fill(in, (size_t)o->a, 600 + (uint32_t)TW.nenc);
        r = ctr_encrypt(t_c, &TW.co, out, in, (size_t)o->a);
        for (i = 0; i < o->a; ++i) {
            if (TW.ksoff >= t_bs) {
                if (check) { uint8_t cb[16]; memset(cb, 0xFF, 16); cb[t_bs - 1] = 0xFE; ref_ctr_add(cb, t_bs, (uint64_t)TW.blocks); t_ref(0, cb, ks); }
                ++TW.blocks; TW.ksoff = 0;
            } else if (check && i == 0) { uint8_t cb[16]; memset(cb, 0xFF, 16); cb[t_bs - 1] = 0xFE; ref_ctr_add(cb, t_bs, (uint64_t)TW.blocks - 1); t_ref(0, cb, ks); }
            if (check && out[i] != (uint8_t)(in[i] ^ ks[TW.ksoff])) {
                t_report("ctr-stream-after-tweak-history", op, "byte %d of this call: got %02x, expected %02x = input xor E(key, last tweak %s)(counter %d)", i, out[i],
                         (uint8_t)(in[i] ^ ks[TW.ksoff]), hexs(TW.tweak, (size_t)t_bs), TW.blocks - 1);
                check = 0;
            }
            ++TW.ksoff;
        }
        ++TW.nenc;
        if (r != 1) t_report("return-value", op, "ctr_encrypt returned %d", r);
        return; }
    case T_TWEAK: {
        const void *tp = T_TWNULL[o->a] ? NULL : T_TW[o->a];
        static const uint8_t z16[16] = {0};
        t_prev_zero = memcmp(TW.tweak, z16, 16) == 0;
        if (t_ctr) r = ctr_set_tweak(t_c, &TW.co, tp, (unsigned)T_TWLEN[o->a]);
        else if (t_c == CK_S128) LIB(r = skinny128_set_tweak(&TW.k128, tp, (unsigned)T_TWLEN[o->a]));
        else LIB(r = skinny64_set_tweak(&TW.k64, tp, (unsigned)T_TWLEN[o->a]));
        memcpy(TW.tweak, T_TW[o->a], 16);      /* already zero padded; zero for null */
        TW.lastop = o->a; TW.ksoff = t_bs; if (TW.ntw < 2) ++TW.ntw; if (TW.nenc) ++TW.nafter;
        break; }
    case T_SELFTW: {
        uint8_t nt[16];
        static const uint8_t z16[16] = {0};
        memset(nt, 0, 16); memcpy(nt, TW.tweak, (size_t)o->a);
        t_prev_zero = memcmp(TW.tweak, z16, 16) == 0;
        if (t_c == CK_S128) LIB(r = skinny128_set_tweak(&TW.k128, TW.k128.tweak, (unsigned)o->a));
        else LIB(r = skinny64_set_tweak(&TW.k64, TW.k64.tweak, (unsigned)o->a));
        memcpy(TW.tweak, nt, 16);
        TW.lastop = 2; TW.ksoff = t_bs; if (TW.ntw < 2) ++TW.ntw; if (TW.nenc) ++TW.nafter;
        break; }
    case T_BADKEY:
        if (t_ctr) r = ctr_set_tweaked_key(t_c, &TW.co, KEYS[1], (unsigned)o->a);
        else if (t_c == CK_S128) LIB(r = skinny128_set_tweaked_key(&TW.k128, KEYS[1], (unsigned)o->a));
        else LIB(r = skinny64_set_tweaked_key(&TW.k64, KEYS[1], (unsigned)o->a));
        break;
    default: {
        const void *bp = o->b ? NULL : T_TW[2];
        if (t_ctr) r = ctr_set_tweak(t_c, &TW.co, bp, (unsigned)o->a);
        else if (t_c == CK_S128) LIB(r = skinny128_set_tweak(&TW.k128, bp, (unsigned)o->a));
        else LIB(r = skinny64_set_tweak(&TW.k64, bp, (unsigned)o->a));
        break; }
    }
    if (!check) return;
    if (o->type == T_BADTWEAK || o->type == T_BADKEY) {
        if (r != 0) t_report("return-value", op, "invalid %s size accepted (returned %d)", o->type == T_BADKEY ? "key" : "tweak", r);
        if (!t_noimage) { const void *s = t_sched(&slen, &rounds); if (slen != bl || memcmp(before, s, slen) != 0) t_report("rejected-call-changed-schedule", op, "schedule changed by a rejected call"); }
        return;
    }
    if (r != 1) { t_report("return-value", op, "valid call returned %d", r); return; }
    if (t_noimage) return;
    {
        /* (a) defined image == fresh tweaked key + one set_tweak(last) */
        static uint8_t img[1024], fimg[1024]; size_t il, fl;
        const void *s = t_sched(&slen, &rounds);
        Skinny128TweakedKey_t f128; Skinny64TweakedKey_t f64; const void *fresh;
        int want_rounds = t_c == CK_S128 ? (TW.klen == 16 ? 48 : 56) : (TW.klen == 8 ? 36 : 40);
        /* the fresh image depends only on (cipher, key, length, tweak): computed once per target state */
        {
            static struct { uint64_t h; uint16_t len; uint8_t img[480]; } *fc; const size_t FN = 1u << 14;
            uint8_t kb[24]; uint64_t h; size_t slot;
            if (!fc) fc = calloc(FN, sizeof(*fc));
            kb[0] = (uint8_t)t_c; kb[1] = (uint8_t)TW.ki; kb[2] = (uint8_t)TW.klen; kb[3] = 0x77; memcpy(kb + 4, TW.tweak, 16); memset(kb + 20, 0x3C, 4);
            h = fnv1a(kb, sizeof(kb), FNV_INIT); h ^= fnv1a(kb, sizeof(kb), 0x9ae16a3b2f90404fULL) << 1; if (!h) h = 1;
            slot = (size_t)(h >> 9) & (FN - 1);
            if (fc && fc[slot].h == h) { fl = fc[slot].len; memcpy(fimg, fc[slot].img, fl); }
            else {
                if (t_c == CK_S128) { memset(&f128, PRIOR_BYTE, sizeof(f128)); skinny128_set_tweaked_key(&f128, KEYS[TW.ki], (unsigned)TW.klen); skinny128_set_tweak(&f128, TW.tweak, 16); fresh = &f128; }
                else { memset(&f64, PRIOR_BYTE, sizeof(f64)); skinny64_set_tweaked_key(&f64, KEYS[TW.ki], (unsigned)TW.klen); skinny64_set_tweak(&f64, TW.tweak, 8); fresh = &f64; }
                fl = t_defined_image(fresh, fimg);
                if (fc && fl <= sizeof(fc[slot].img)) { fc[slot].h = h; fc[slot].len = (uint16_t)fl; memcpy(fc[slot].img, fimg, fl); }
            }
        }
        il = t_defined_image(s, img);
        if (rounds != want_rounds) t_report("round-count", op, "schedule has %d rounds, specification says %d for this tweakey size", rounds, want_rounds);
        if (il != fl || memcmp(img, fimg, il) != 0)
            t_report("depends-on-history", op, "schedule differs from a fresh set_tweaked_key + set_tweak(last tweak %s)", hexs(TW.tweak, (size_t)t_bs));
        /* (b) behaviour == specification with TK1 = zero-padded last tweak, both directions */
        {
            uint8_t blk[16], real[16], ref[16]; int p, v, dir, step = tier_thorough() ? 16 : 64;
            if (o->type == T_TWEAK && o->a >= t_nbase && !t_prev_zero) step = 4096;   /* BYTE tweak reached from a non-zero tweak: image oracle only plus one block per position */
            static uint8_t cb4[1024]; size_t cl = 0; int cr; const void *cs = t_sched(&cl, &cr);
            if (cl <= sizeof(cb4)) memcpy(cb4, cs, cl); else cl = 0;
            for (dir = 0; dir < 2; ++dir) for (p = 0; p < t_bs; ++p) for (v = (p * 7) & 15; v < 256; v += step) {
                lcg_fill(blk, 16, 400 + (uint32_t)dir); memset(blk + t_bs, 0, (size_t)(16 - t_bs)); blk[p] = (uint8_t)v;
                t_blocks(s, dir, blk, real);
                t_ref(dir, blk, ref);
                ++g_cnt.evaluations;
                if (memcmp(real, ref, (size_t)t_bs) != 0) {
                    t_report("behaviour", op, "%s block %s with last tweak %s: got %s, specification (tweak in TK1) %s", dir ? "decrypt" : "encrypt",
                             hexs(blk, (size_t)t_bs), hexs(TW.tweak, (size_t)t_bs), hexs(real, (size_t)t_bs), hexs(ref, (size_t)t_bs));
                    return;
                }
            }
            if (cl && memcmp(cb4, cs, cl) != 0) t_report("block-call-changed-schedule", op, "the schedule (a const argument) was modified by the block functions");
        }
    }
}

static size_t t_canon(uint8_t *buf, size_t cap)
{
    size_t o = 0;
    if (t_ctr) o = ctr_image(t_c, &TW.co, buf, cap);
    else if (t_c == CK_S128) { memcpy(buf, &TW.k128, sizeof(TW.k128)); o = sizeof(TW.k128); }
    else { memcpy(buf, &TW.k64, sizeof(TW.k64)); o = sizeof(TW.k64); }
    memcpy(buf + o, &TW.keyed, sizeof(int) * 3 + 16); o += sizeof(int) * 3 + 16;
    memcpy(buf + o, &TW.nenc, sizeof(int) * 5); o += sizeof(int) * 5;
    return o;
}

/* =========================================================== driver */

static MCKind KIND; static char kname[96], ksig[96];

static int setup_kind(const char *name)
{
    int be = 0;
    memset(&KIND, 0, sizeof(KIND));
    snprintf(kname, sizeof(kname), "%s", name);
    KIND.name = kname; KIND.max_depth = 12;
    if (!strcmp(name, "mantis-ks") || sscanf(name, "mantis-par-be%d", &be) == 1) {
        m_par = strcmp(name, "mantis-ks") != 0; m_be = be;
        m_build();
        KIND.nops = m_nops; KIND.reset = m_reset; KIND.enabled = m_enabled; KIND.apply = m_apply; KIND.canon = m_canon; KIND.opname = m_opname;
        KIND.world = &MW; KIND.world_size = sizeof(MW);
        snprintf(ksig, sizeof(ksig), "C03/mantis-%s/crash", m_par ? "parallel" : "schedule");
        KIND.sigbase = ksig;
        return 1;
    }
    if (sscanf(name, "tk128-ctr-be%d", &be) == 1) { t_c = CK_S128; t_ctr = 1; }
    else if (sscanf(name, "tk64-ctr-be%d", &be) == 1) { t_c = CK_S64; t_ctr = 1; }
    else if (!strcmp(name, "tk128")) { t_c = CK_S128; t_ctr = 0; }
    else if (!strcmp(name, "tk64")) { t_c = CK_S64; t_ctr = 0; }
    else return 0;
    t_be = be; t_bs = cipher_bs(t_c);
    t_build();
    KIND.nops = t_nops; KIND.reset = t_reset; KIND.enabled = t_enabled; KIND.apply = t_apply; KIND.canon = t_canon; KIND.opname = t_opname;
    KIND.world = &TW; KIND.world_size = sizeof(TW);
    snprintf(ksig, sizeof(ksig), "C04/%s%s/crash", cipher_name(t_c), t_ctr ? "-ctr" : "");
    KIND.sigbase = ksig;
    return 1;
}

static void body(void)
{
    const char *c03[] = {"mantis-ks", "mantis-par-be0", "mantis-par-be1"};
    char c04[16][32]; int n04 = 0, i, be, job = 0, cut = 0;
    if (ref_selftest() != 0) engine_error("reference self-test failed");
    lcg_fill(KEYS[0], 48, 4242 + (uint32_t)g_opts.seed);
    for (i = 0; i < 48; ++i) KEYS[1][i] = (uint8_t)(0xFF - 5 * i);
    if (g_opts.replay) {
        char nm[96]; const char *colon = strrchr(g_opts.replay, ':'); const MCKind *kp = &KIND;
        if (!colon || (size_t)(colon - g_opts.replay) >= sizeof(nm)) engine_error("bad replay");
        memcpy(nm, g_opts.replay, (size_t)(colon - g_opts.replay)); nm[colon - g_opts.replay] = 0;
        if (!setup_kind(nm)) engine_error("bad replay kind");
        mc_replay(&kp, 1, g_opts.replay);
        return;
    }
    if (!strcmp(g_opts.sub, "c03s")) {
        for (i = 0; i < 2 + (cipher_max_be(CK_MANTIS) >= BE_V128); ++i, ++job) {
            if (job % g_opts.nshards != g_opts.shard) continue;
            setup_kind(c03[i]);
            if (!mc_explore(&KIND)) ++cut;
            sample_add("%s: closure under {set_key(2 keys x rounds 5..8 x 2 modes)%s, swap_modes}", c03[i], i ? "" : ", set_tweak(Z,F,R1,R2,NULL), invalid set_tweak sizes");
        }
    } else if (!strcmp(g_opts.sub, "c04")) {
        snprintf(c04[n04++], 32, "tk128"); snprintf(c04[n04++], 32, "tk64");
        for (be = 0; be <= cipher_max_be(CK_S128); ++be) snprintf(c04[n04++], 32, "tk128-ctr-be%d", be);
        for (be = 0; be <= cipher_max_be(CK_S64); ++be) snprintf(c04[n04++], 32, "tk64-ctr-be%d", be);
        for (i = 0; i < n04; ++i, ++job) {
            if (job % g_opts.nshards != g_opts.shard) continue;
            setup_kind(c04[i]);
            t_noimage = 0;
            if (t_ctr && !t_validate_layout()) { note_kv("image_oracles_off", "%s: private CTR context layout not recognised; explored with the return-value and stream oracles only", c04[i]); t_noimage = 1; }
            if (!mc_explore(&KIND)) ++cut;
            sample_add("%s: closure under {set_tweaked_key(2 keys x 2 sizes), set_tweak(%d tweaks: Z,F,R1,R2, R1 at every length 1..B-1, NULL at 1 and B%s), invalid sizes}",
                       c04[i], t_ntw, tier_thorough() ? ", every byte value at every position" : "");
        }
    } else engine_error("unknown sub");
    note_num("kinds_cut_by_depth_cap", cut);
    distinct_add_u64(1);
}

int main(int argc, char **argv)
{
    parse_opts(argc, argv);
    run_prelude();
    if (!g_opts.sub) engine_error("--sub required");
    return mc_guarded_main(body);
}
