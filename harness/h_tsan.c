/*
 * Free-running pass for C18: the same operation bodies as the controlled scheduler,
 * on real pthreads, with the library and this file built under ThreadSanitizer.
 * (A cooperative scheduler's hand-offs are happens-before edges that would hide races
 * from the detector, hence this separate pass.)  The shared read-only objects live on
 * pages that are PROT_READ while the threads run: a store into them faults.
 * usage: h_tsan <repetitions> | h_tsan control
 */
#define _GNU_SOURCE
#include <pthread.h>
#include <stdio.h>
#include <stdlib.h>
#include <string.h>
#include <signal.h>
#include <unistd.h>
#include <sys/mman.h>
#include "common.h"
#include "thr_ops.h"

int ctl_counter;
int ctl_rmw(void) { int v = ctl_counter; v = v + 1; ctl_counter = v; return v; }

static int cur_ops[MAXT];
static pthread_barrier_t bar;
static long launches, mismatches;

static void *runner(void *arg)
{
    int t = (int)(long)arg;
    pthread_barrier_wait(&bar);
    OPS[cur_ops[t]].run(&ctxs[t]);
    return NULL;
}

static void on_segv(int sig)
{
    static const char msg[] = "WARNING: ThreadSanitizer: (harness) store into a read-only shared object faulted\n";
    (void)sig;
    if (write(1, msg, sizeof(msg) - 1) < 0) _exit(68);
    _exit(66);
}

static void combo(int n, const int *ops, int reps)
{
    uint64_t seq[MAXT]; int t, r;
    pthread_t th[MAXT];
    for (r = -1; r < reps; ++r) {
        mprotect(shared_p, 8192, PROT_READ | PROT_WRITE);
        shared_prepare();
        mprotect(shared_p, 8192, PROT_READ);
        for (t = 0; t < n; ++t) { ctx_prepare(t); cur_ops[t] = ops[t]; }
        if (r < 0) {                 /* sequential reference */
            for (t = 0; t < n; ++t) { OPS[ops[t]].run(&ctxs[t]); seq[t] = ctxs[t].digest; }
        } else {
            pthread_barrier_init(&bar, NULL, (unsigned)n);
            for (t = 0; t < n; ++t) { pthread_create(&th[t], NULL, runner, (void *)(long)t); ++launches; }
            for (t = 0; t < n; ++t) pthread_join(th[t], NULL);
            pthread_barrier_destroy(&bar);
            for (t = 0; t < n; ++t) if (ctxs[t].digest != seq[t] && ops[t] != OP_CONTROL) ++mismatches;
        }
        mprotect(shared_p, 8192, PROT_READ | PROT_WRITE);
        shared_release();
    }
}

int main(int argc, char **argv)
{
    int a, b, reps = argc > 1 ? atoi(argv[1]) : 10, ops[MAXT];
    struct sigaction sa;
    shared_p = mmap(NULL, 8192, PROT_READ | PROT_WRITE, MAP_PRIVATE | MAP_ANONYMOUS, -1, 0);
    if (shared_p == MAP_FAILED || sizeof(SharedObjs) > 8192) return 3;
    memset(&sa, 0, sizeof(sa)); sa.sa_handler = on_segv; sigaction(SIGSEGV, &sa, NULL);
    if (argc > 1 && !strcmp(argv[1], "control")) {
        ops[0] = OP_CONTROL; ops[1] = OP_CONTROL;
        combo(2, ops, 50);
        printf("tsan-pass: control done\n");
        return 0;
    }
    if (argc > 3 && !strcmp(argv[1], "cold")) {
        /* first library calls of a fresh process happen concurrently: no warm-up, no shared objects */
        pthread_t th[MAXT]; int t, n = argc - 2;
        if (n > MAXT) n = MAXT;
        memset(shared_p, 0, sizeof(SharedObjs));
        for (t = 0; t < n; ++t) { cur_ops[t] = atoi(argv[2 + t]); if (cur_ops[t] < 0 || cur_ops[t] >= 12) return 3; ctx_prepare(t); }
        pthread_barrier_init(&bar, NULL, (unsigned)n);
        for (t = 0; t < n; ++t) pthread_create(&th[t], NULL, runner, (void *)(long)t);
        for (t = 0; t < n; ++t) pthread_join(th[t], NULL);
        printf("tsan-pass: cold done\n");
        return 0;
    }
    /* every pair once per repetition budget: pairs get reps/8+1 launches, the shared-object triples get reps */
    for (a = 0; a < NOPS; ++a) for (b = a; b < NOPS; ++b) { ops[0] = a; ops[1] = b; combo(2, ops, reps / 8 + 1); }
    for (a = 12; a < NOPS; ++a) { ops[0] = a; ops[1] = a; ops[2] = a; combo(3, ops, reps); }
    ops[0] = 11; ops[1] = 11; ops[2] = 11; combo(3, ops, reps);
    ops[0] = 5; ops[1] = 6; ops[2] = 7; combo(3, ops, reps);
    printf("tsan-pass: %ld thread launches, %ld mismatches\n", launches, mismatches);
    return 0;
}
