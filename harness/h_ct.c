/*
 * ct level 1 (C08): trace equality by enumeration.  The library is built with clang
 * -fsanitize-coverage=trace-pc-guard,trace-loads,trace-stores; while tracing is on,
 * every basic-block edge and every load/store address of library code is appended to
 * a trace.  For each public-parameter combination the operation is run for a baseline
 * secret and for every alternative secret of the alphabet; all traces of one
 * combination must be identical (same length, same events).  Objects and buffers are
 * created once per combination and reused, so absolute addresses are comparable.
 * Positive control: a table-lookup S-box compiled with the same instrumentation.
 */
#include "common.h"
#include "obj.h"
#include "alloc.h"
#include <string.h>
#include <stdlib.h>

/* ---------------- trace ---------------- */
static volatile int tr_on;
static uint64_t tr_hash, tr_len;
static uint64_t *tr_store; static size_t tr_cap, tr_n; static int tr_keep;

static inline void ev(uint64_t kind, uint64_t v)
{
    uint64_t x = (kind << 60) ^ v;
    tr_hash = (tr_hash ^ x) * 0x100000001b3ULL; tr_hash ^= tr_hash >> 29;
    ++tr_len;
    if (tr_keep && tr_n < tr_cap) tr_store[tr_n++] = x;
}

void __sanitizer_cov_trace_pc_guard_init(uint32_t *start, uint32_t *stop)
{
    static uint32_t n;
    if (start == stop || *start) return;
    for (; start < stop; ++start) *start = ++n;
}
void __sanitizer_cov_trace_pc_guard(uint32_t *g) { if (tr_on) ev(1, *g); }
void __sanitizer_cov_load1(void *a) { if (tr_on) ev(2, (uint64_t)(uintptr_t)a); }
void __sanitizer_cov_load2(void *a) { if (tr_on) ev(3, (uint64_t)(uintptr_t)a); }
void __sanitizer_cov_load4(void *a) { if (tr_on) ev(4, (uint64_t)(uintptr_t)a); }
void __sanitizer_cov_load8(void *a) { if (tr_on) ev(5, (uint64_t)(uintptr_t)a); }
void __sanitizer_cov_load16(void *a) { if (tr_on) ev(6, (uint64_t)(uintptr_t)a); }
void __sanitizer_cov_store1(void *a) { if (tr_on) ev(7, (uint64_t)(uintptr_t)a); }
void __sanitizer_cov_store2(void *a) { if (tr_on) ev(8, (uint64_t)(uintptr_t)a); }
void __sanitizer_cov_store4(void *a) { if (tr_on) ev(9, (uint64_t)(uintptr_t)a); }
void __sanitizer_cov_store8(void *a) { if (tr_on) ev(10, (uint64_t)(uintptr_t)a); }
void __sanitizer_cov_store16(void *a) { if (tr_on) ev(11, (uint64_t)(uintptr_t)a); }


#include "ct_prog.h"

/* The secret is always presented at the same address (a fixed buffer), so that buffer
 * addresses in the trace are identical whatever the secret's value. */
static Secret fixed_secret;

static void __attribute__((noinline)) run_program(const Pub *p, const Secret *src)
{
    const Secret *s = &fixed_secret;
    memcpy(&fixed_secret, src, sizeof(Secret));
    tr_hash = 0xcbf29ce484222325ULL; tr_len = 0; tr_n = 0;
    tr_on = 1;
    ct_prog_body(p, s);
    tr_on = 0;
}

/* ---------------- secret alphabet ---------------- */
static const uint8_t VALS[6] = {0x00, 0x01, 0x7f, 0x80, 0xff, 0x55};

typedef struct { const char *what; size_t off, len; } Field;

static uint64_t combos, traces, maxlen;
static int control_detected;

static void pub_desc(const Pub *p, char *buf, size_t n)
{
    snprintf(buf, n, "%s %s be=%s klen=%d tweaked=%d tlen=%d clen=%d rounds=%d mode=%d size=%d", PNAME[p->prog], cipher_name(p->c), be_name(p->be), p->klen,
             p->tweaked, p->tlen, p->clen, p->rounds, p->mode, p->size);
}

static void diverge(const Pub *p, const Secret *a, const Secret *b, const char *what, size_t pos, unsigned val)
{
    static uint64_t t1[1 << 20]; size_t n1, i; char pd[300], cd[400], sig[200];
    tr_store = t1; tr_cap = 1 << 20; tr_keep = 1;
    run_program(p, a); n1 = tr_n;
    {
        static uint64_t t2[1 << 20]; size_t n2;
        tr_store = t2; run_program(p, b); n2 = tr_n; tr_keep = 0;
        for (i = 0; i < n1 && i < n2 && t1[i] == t2[i]; ++i) { }
        pub_desc(p, pd, sizeof(pd));
        snprintf(cd, sizeof(cd), "c08 %d %d %d %d %d %d %d %d %d %d", p->prog, (int)p->c, p->be, p->klen, p->tweaked, p->tlen, p->clen, p->rounds, p->mode, p->size);
        if (p->prog == P_CONTROL) { control_detected = 1; return; }
        snprintf(sig, sizeof(sig), "C08/%s/%s/%s/secret-dependent-%s", PNAME[p->prog], cipher_name(p->c), be_name(p->be),
                 i < n1 && i < n2 ? ((t1[i] >> 60) == 1 || (t2[i] >> 60) == 1 ? "branch" : "address") : "trace-length");
        violation(sig, cd, "%s: changing %s byte %zu to %02x changes the trace at event %zu of %zu/%zu (kind %llu value %llx vs kind %llu value %llx): %s",
                  pd, what, pos, val, i, n1, n2, i < n1 ? (unsigned long long)(t1[i] >> 60) : 0ULL, i < n1 ? (unsigned long long)(t1[i] & 0x0fffffffffffffffULL) : 0ULL,
                  i < n2 ? (unsigned long long)(t2[i] >> 60) : 0ULL, i < n2 ? (unsigned long long)(t2[i] & 0x0fffffffffffffffULL) : 0ULL,
                  i < n1 && i < n2 && (t1[i] >> 60) != 1 && (t2[i] >> 60) != 1 ? "a memory address depends on secret data" : "the branch sequence depends on secret data");
    }
}

static void run_combo(const Pub *p)
{
    Secret base, alt; uint64_t h0, l0;
    Field f[6]; int nf = 0, fi; size_t pos; int vi, nvals = tier_thorough() ? 256 : 6;
    size_t dlen = p->prog == P_CTR || p->prog == P_SEEK ? (size_t)p->size + 47 : (p->prog == P_PAR ? (size_t)p->size : 32);
    memset(&O, 0, sizeof(O));
    arena_reset();
    g_pin = p->be;
    if ((p->prog == P_CTR || p->prog == P_SEEK) && !ctr_init(p->c, p->be, &O.co)) engine_error("ctr init");
    if (p->prog == P_PAR && !par_init(p->c, p->be, &O.po)) engine_error("par init");
    base_secret(&base);
    run_program(p, &base);          /* warm-up (lazy binding, first-iteration object state) */
    run_program(p, &base);
    h0 = tr_hash; l0 = tr_len; if (l0 > maxlen) maxlen = l0;
    run_program(p, &base);
    if (tr_hash != h0 || tr_len != l0) engine_error("trace of an identical run differs (non-determinism in the harness)");
    ++combos;
    f[nf].what = "key"; f[nf].off = offsetof(Secret, key); f[nf++].len = (size_t)(p->prog == P_MANTIS || p->c == CK_MANTIS ? 17 : p->klen + 1 > 48 ? 48 : p->klen + 1);
    if (p->prog != P_BLOCK && p->prog != P_PAR) { f[nf].what = "tweak"; f[nf].off = offsetof(Secret, tweak); f[nf++].len = 16; }
    if (p->prog == P_CTR || p->prog == P_SEEK) { f[nf].what = "counter"; f[nf].off = offsetof(Secret, counter); f[nf++].len = (size_t)p->clen; }
    if (p->prog == P_SEEK) { f[nf].what = "second counter"; f[nf].off = offsetof(Secret, counter2); f[nf++].len = (size_t)p->clen; }
    f[nf].what = "data"; f[nf].off = offsetof(Secret, data); f[nf++].len = dlen > 64 && !tier_thorough() ? 64 : dlen;
    if (p->prog == P_MANTIS || (p->prog == P_PAR && p->c == CK_MANTIS)) { f[nf].what = "per-call tweak"; f[nf].off = offsetof(Secret, tw); f[nf++].len = p->prog == P_PAR ? (dlen > 64 ? 64 : dlen) : 8; }
    if (p->prog == P_CONTROL) { nf = 0; f[nf].what = "data"; f[nf].off = offsetof(Secret, data); f[nf++].len = 1; }
    for (fi = 0; fi < nf; ++fi) {
        int fill;
        for (fill = 0; fill < 2; ++fill) {          /* Z / F fills of the whole field */
            alt = base; memset((uint8_t *)&alt + f[fi].off, fill ? 0xFF : 0x00, f[fi].len);
            run_program(p, &alt); ++traces; ++g_cnt.evaluations;
            if (tr_hash != h0 || tr_len != l0) { diverge(p, &base, &alt, f[fi].what, 0, fill ? 0xFFu : 0u); return; }
        }
        for (pos = 0; pos < f[fi].len; ++pos) for (vi = 0; vi < nvals; ++vi) {
            unsigned v = tier_thorough() ? (unsigned)vi : (vi == 5 ? (unsigned)(((uint8_t *)&base)[f[fi].off + pos] ^ 0x55) : VALS[vi]);
            alt = base; ((uint8_t *)&alt)[f[fi].off + pos] = (uint8_t)v;
            run_program(p, &alt); ++traces; ++g_cnt.evaluations;
            distinct_add_u64(fnv1a(&alt, sizeof(alt), (uint64_t)combos));
            if (tr_hash != h0 || tr_len != l0) { diverge(p, &base, &alt, f[fi].what, pos, v); return; }
        }
        if (!strcmp(f[fi].what, "counter") && f[fi].len >= 1) {
            /* counter arithmetic is where data-dependent carries and borrows hide: every value of the
             * last byte, under all-00 / all-FF neighbours (carry and borrow chains of every length
             * start from these; the lanes hold c+4..c+15 when a re-key winds them back) */
            int hi, v2;
            for (hi = 0; hi < 4; ++hi) for (v2 = 0; v2 < 256; ++v2) {
                size_t L = f[fi].len, k;
                alt = base;
                for (k = 0; k + 1 < L; ++k) alt.counter[k] = (hi & 1) ? 0xFF : 0x00;
                if (L >= 2 && (hi & 2)) alt.counter[0] = 0x3C;
                alt.counter[L - 1] = (uint8_t)v2;
                run_program(p, &alt); ++traces; ++g_cnt.evaluations;
                if (tr_hash != h0 || tr_len != l0) { diverge(p, &base, &alt, "counter low byte (neighbours all-00/all-FF)", L - 1, (unsigned)v2); return; }
            }
        }
        if (!strcmp(f[fi].what, "counter")) {       /* carry chains: 00..00 FF^k, FF..FF, FF..FE */
            size_t k;
            for (k = 0; k <= f[fi].len; ++k) {
                alt = base; memset(alt.counter, 0, 16); if (k) memset(alt.counter + f[fi].len - k, 0xFF, k);
                run_program(p, &alt); ++traces; ++g_cnt.evaluations;
                if (tr_hash != h0 || tr_len != l0) { diverge(p, &base, &alt, "counter carry pattern, trailing FF bytes", k, 0xFF); return; }
            }
        }
    }
    if (p->prog == P_SEEK) {      /* second counter in a fixed relation to the first */
        int k;
        for (k = 0; ct_related_counter(p, &base, &alt, k); ++k) {
            run_program(p, &alt); ++traces; ++g_cnt.evaluations;
            if (tr_hash != h0 || tr_len != l0) { diverge(p, &base, &alt, "second counter = first counter + offset number", (size_t)k, 0); return; }
        }
    }
    if (p->prog == P_CTR || p->prog == P_SEEK) ctr_cleanup(p->c, &O.co);
    if (p->prog == P_PAR) par_cleanup(p->c, &O.po);
}

static int job;
static void maybe(const Pub *p) { if (job++ % g_opts.nshards == g_opts.shard) run_combo(p); }

int main(int argc, char **argv)
{
    Pub p; int i;
    parse_opts(argc, argv);
    if (g_opts.replay) {
        int a[10];
        if (sscanf(g_opts.replay, "c08 %d %d %d %d %d %d %d %d %d %d", &a[0], &a[1], &a[2], &a[3], &a[4], &a[5], &a[6], &a[7], &a[8], &a[9]) != 10) engine_error("bad replay");
        p.prog = a[0]; p.c = (Cipher)a[1]; p.be = a[2]; p.klen = a[3]; p.tweaked = a[4]; p.tlen = a[5]; p.clen = a[6]; p.rounds = a[7]; p.mode = a[8]; p.size = a[9];
        run_combo(&p);
        return finish();
    }
    /* positive control first: the table S-box must be caught */
    memset(&p, 0, sizeof(p)); p.prog = P_CONTROL; p.c = CK_S128; run_combo(&p);
    if (!control_detected) engine_error("positive control missed: table-lookup S-box produced identical traces");
    combos = 0; traces = 0; g_cnt.evaluations = 0;
    {
        static Pub list[600]; int n = ct_combos(list, 600, tier_thorough());
        for (i = 0; i < n; ++i) maybe(&list[i]);
    }
    note_num("public_parameter_combinations", (double)combos);
    note_num("traces_compared", (double)traces);
    note_num("longest_trace_events", (double)maxlen);
    if (g_opts.shard == 0) {
        sample_add("combination '%s, skinny128, be=v256, klen=16, clen=14, size=129': baseline secret vs Z/F fills and byte substitutions in key, tweak, counter, data", PNAME[P_CTR]);
        sample_add("combination '%s, mantis rounds=7 mode=decrypt'", PNAME[P_MANTIS]);
    }
    return finish();
}
