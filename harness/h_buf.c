/*
 * buf (C09): exhaustive buffer placements under valgrind memcheck.  Every buffer
 * argument is placed at every alignment offset 0..31 inside a region whose remaining
 * bytes are marked NOACCESS with client requests (byte exact on both sides), so any
 * read or write outside the extent given by the arguments is reported at the faulting
 * instruction; canaries double-check writes when not under valgrind; every result must
 * equal the aligned, non-overlapping reference call.  Single-block functions are also
 * run for every overlap offset -B..+B of input and output, bulk functions with exact
 * aliasing.  Run with --undef-value-errors=no (uninitialised values are C11's subject).
 */
#include "common.h"
#include "alloc.h"
#include "obj.h"
#include "mc.h"
#include <string.h>
#include <stdlib.h>
#include <valgrind/memcheck.h>

#define REGION 2048
#define NREG 6
/* each region is the start of a mapping of its own, so that a region holding a pure input (key, tweak, counter, data
 * that is not also the output) can be made read-only for the duration of the library call: the caller's inputs may
 * be string literals or const tables, and a library that writes to them - even to put the old bytes back - faults */
#include <sys/mman.h>
#define MAPSZ 8192
static uint8_t *pool[NREG];
static int is_input[NREG];
static void pool_init(void)
{
    int r;
    for (r = 0; r < NREG; ++r) {
        pool[r] = mmap(NULL, MAPSZ, PROT_READ | PROT_WRITE, MAP_PRIVATE | MAP_ANONYMOUS, -1, 0);
        if (pool[r] == MAP_FAILED) engine_error("mmap of a buffer region failed");
    }
}
static uint8_t *reg_p[NREG]; static size_t reg_n[NREG];
static void inputs_readonly(int on)
{
    int r;
    for (r = 0; r < NREG; ++r) if (is_input[r]) {
        mprotect(pool[r], MAPSZ, on ? PROT_READ : PROT_READ | PROT_WRITE);
        /* memcheck marks a range whose protection changes as addressable again: put the red zones back */
        if (on && reg_p[r]) {
            VALGRIND_MAKE_MEM_NOACCESS(pool[r], (size_t)(reg_p[r] - pool[r]));
            VALGRIND_MAKE_MEM_NOACCESS(reg_p[r] + reg_n[r], MAPSZ - (size_t)(reg_p[r] + reg_n[r] - pool[r]));
        }
    }
}
static uint8_t KEY[48], TWEAK[16], CTRV[16], DATA[1024], TW[1024];
static unsigned long last_errs;
static const char *cur_fn = "";
static char cur_case[200];
/* --replay <case>: only the named case is executed (stand-alone confirmation of a reported violation) */
#define CASE_SKIP() (g_opts.replay && strcmp(cur_case, g_opts.replay) != 0)

/* Places a buffer of n bytes at alignment offset a (mod 32) in region r.  fill: source
 * bytes or NULL (output buffer, painted 0xEE).  Everything else in the region becomes
 * NOACCESS. */
static uint8_t *place(int r, int a, size_t n, const uint8_t *fill)
{
    uint8_t *base = pool[r], *p = base + 256 + a;
    reg_p[r] = p; reg_n[r] = n;
    is_input[r] = fill != NULL;     /* cleared by the caller when the same buffer is also written (in-place, overlap) */
    VALGRIND_MAKE_MEM_UNDEFINED(base, REGION);
    memset(base, 0xC3, REGION);
    if (fill) memcpy(p, fill, n); else memset(p, 0xEE, n);
    VALGRIND_MAKE_MEM_NOACCESS(base, (size_t)(p - base));
    VALGRIND_MAKE_MEM_NOACCESS(p + n, REGION - (size_t)(p + n - base));
    return p;
}

static void unprotect_all(void)
{
    int r;
    for (r = 0; r < NREG; ++r) VALGRIND_MAKE_MEM_DEFINED(pool[r], REGION);
}

static int canary_ok(int r, const uint8_t *p, size_t n)
{
    const uint8_t *base = pool[r], *q;
    for (q = base; q < p; ++q) if (*q != 0xC3) return 0;
    for (q = p + n; q < base + REGION; ++q) if (*q != 0xC3) return 0;
    return 1;
}

static void fail(const char *cls, const char *fmt, ...)
{
    char sig[200], detail[600]; va_list ap;
    va_start(ap, fmt); vsnprintf(detail, sizeof(detail), fmt, ap); va_end(ap);
    snprintf(sig, sizeof(sig), "C09/%s/%s", cur_fn, cls);
    violation(sig, cur_case, "%s [%s]", detail, cur_case);
}

/* crash attribution: a library call that faults (e.g. an aligned vector access on an unaligned
 * buffer) is reported as that case's outcome by the guarding parent, and the case is skipped
 * in the restarted child */
/* (a block, not do-while: a case whose call crashed in an earlier incarnation of the child is
 * skipped as a whole - the crash is already reported and there is no result to compare) */
#define GUARDED(call) { char sb_[120]; snprintf(sb_, sizeof(sb_), "C09/%s", cur_fn); if (guard_enter(sb_, cur_case)) continue; inputs_readonly(1); call; inputs_readonly(0); guard_leave(); }

/* after a call: memcheck errors, canaries */
static void after_call(int nreg, const int *regs, uint8_t *const *ptrs, const size_t *lens)
{
    unsigned long e = VALGRIND_COUNT_ERRORS; int i;
    unprotect_all();
    ++g_cnt.evaluations;
    if (e != last_errs) { fail("access-outside-buffer", "memcheck reported %lu invalid access(es) outside the extents given by the arguments", e - last_errs); last_errs = e; }
    for (i = 0; i < nreg; ++i) if (!canary_ok(regs[i], ptrs[i], lens[i])) fail("write-outside-buffer", "bytes outside buffer %d were modified", i);
}

/* ---------------- single-block functions ---------------- */
enum { SB_S128E, SB_S128D, SB_S64E, SB_S64D, SB_ME, SB_MT, SB_N };
static const char *SBNAME[] = {"skinny128_ecb_encrypt", "skinny128_ecb_decrypt", "skinny64_ecb_encrypt", "skinny64_ecb_decrypt", "mantis_ecb_crypt", "mantis_ecb_crypt_tweaked"};
static Skinny128Key_t k128; static Skinny64Key_t k64; static MantisKey_t km;

/* the key schedule is an argument too: a byte copy of it sits between red zones in a region of its own (read-only
 * during the call), at each offset that keeps the type's alignment */
static const void *g_ks;
static void sb_place_schedule(int f, int sel)
{
    const void *src = f < 2 ? (const void *)&k128 : (f < 4 ? (const void *)&k64 : (const void *)&km);
    size_t n = f < 2 ? sizeof(k128) : (f < 4 ? sizeof(k64) : sizeof(km));
    g_ks = place(3, 8 * (sel & 3), n, src);
}
static void sb_call(int f, uint8_t *out, const uint8_t *in, const uint8_t *tw)
{
    switch (f) {
    case SB_S128E: LIB(skinny128_ecb_encrypt(out, in, g_ks ? (const Skinny128Key_t *)g_ks : &k128)); break;
    case SB_S128D: LIB(skinny128_ecb_decrypt(out, in, g_ks ? (const Skinny128Key_t *)g_ks : &k128)); break;
    case SB_S64E: LIB(skinny64_ecb_encrypt(out, in, g_ks ? (const Skinny64Key_t *)g_ks : &k64)); break;
    case SB_S64D: LIB(skinny64_ecb_decrypt(out, in, g_ks ? (const Skinny64Key_t *)g_ks : &k64)); break;
    case SB_ME: LIB(mantis_ecb_crypt(out, in, g_ks ? (const MantisKey_t *)g_ks : &km)); break;
    default: LIB(mantis_ecb_crypt_tweaked(out, in, tw, g_ks ? (const MantisKey_t *)g_ks : &km)); break;
    }
}

static void run_single(void)
{
    int f, ai, ao, at, d;
    skinny128_set_key(&k128, KEY, 48); skinny64_set_key(&k64, KEY, 24); mantis_set_key(&km, KEY, 16, 8, MANTIS_ENCRYPT); mantis_set_tweak(&km, TWEAK, 8);   /* the longest schedules: the round loops run to the end of the objects */
    for (f = 0; f < SB_N; ++f) {
        size_t bs = f < 2 ? 16 : 8; uint8_t ref[16], got[16];
        if (f % g_opts.nshards != g_opts.shard % SB_N && g_opts.nshards > 1) continue;
        uint8_t *ptrs[3]; size_t lens[3]; int regs[3] = {0, 1, 2};
        cur_fn = SBNAME[f];
        g_ks = NULL;
        sb_call(f, ref, DATA, TW);
        for (ai = 0; ai < 32; ++ai) for (ao = 0; ao < 32; ++ao) {
            uint8_t *in = place(0, ai, bs, DATA), *out = place(1, ao, bs, NULL), *tw;
            at = (ai * 7 + ao * 3) & 31;
            tw = place(2, at, 8, TW);
            sb_place_schedule(f, ai + ao);
            snprintf(cur_case, sizeof(cur_case), "c09 single %d in+%d out+%d tweak+%d", f, ai, ao, at);
            if (CASE_SKIP()) continue;
            GUARDED(sb_call(f, out, in, tw));
            ptrs[0] = in; ptrs[1] = out; ptrs[2] = tw; lens[0] = bs; lens[1] = bs; lens[2] = 8;
            after_call(3, regs, ptrs, lens);
            memcpy(got, out, bs);
            if (memcmp(got, ref, bs) != 0) fail("result-depends-on-alignment", "result differs from the aligned call");
            distinct_add_u64(fnv1a(cur_case, strlen(cur_case), 9));
        }
        /* overlap: out = in + d, both inside one buffer of bs + |d| bytes */
        for (d = -(int)bs; d <= (int)bs; ++d) for (ai = 0; ai < 32; ai += 5) {
            size_t span = bs + (size_t)(d < 0 ? -d : d);
            uint8_t img[40], *buf, *in, *out; int regs1[1] = {0}; uint8_t *p1[1]; size_t l1[1];
            memset(img, 0x99, sizeof(img));
            memcpy(img + (d < 0 ? -d : 0), DATA, bs);
            buf = place(0, ai, span, img); is_input[0] = 0;
            in = buf + (d < 0 ? -d : 0); out = buf + (d > 0 ? d : 0);
            snprintf(cur_case, sizeof(cur_case), "c09 overlap %d out=in%+d align+%d", f, d, ai);
            if (CASE_SKIP()) continue;
            GUARDED(sb_call(f, out, in, TW));
            p1[0] = buf; l1[0] = span;
            after_call(1, regs1, p1, l1);
            if (memcmp(out, ref, bs) != 0) fail("overlap", "output overlapping the input at offset %+d gives a different result", d);
            distinct_add_u64(fnv1a(cur_case, strlen(cur_case), 9));
        }
        /* the per-call tweak is a second input: it may be the same memory as the input block (a block used as its own
         * tweak), with the output elsewhere or, as the documentation allows for input and output, in place */
        if (f == SB_MT) for (ai = 0; ai < 32; ai += 3) for (d = 0; d < 2; ++d) {
            uint8_t ref2[8], c1[8], c2[8], *buf, *out; int regs2[2] = {0, 1}; uint8_t *p2[2]; size_t l2[2];
            memcpy(c1, DATA, 8); memcpy(c2, DATA, 8);
            mantis_ecb_crypt_tweaked(ref2, c1, c2, &km);
            buf = place(0, ai, 8, DATA);
            if (d) { out = buf; is_input[0] = 0; } else out = place(1, (ai * 5 + 3) & 31, 8, NULL);
            snprintf(cur_case, sizeof(cur_case), "c09 tweak-is-input align+%d %s", ai, d ? "in-place" : "");
            if (CASE_SKIP()) continue;
            GUARDED(LIB(mantis_ecb_crypt_tweaked(out, buf, buf, &km)));
            p2[0] = buf; p2[1] = out; l2[0] = 8; l2[1] = 8;
            after_call(d ? 1 : 2, regs2, p2, l2);
            memcpy(got, out, 8);
            if (memcmp(got, ref2, 8) != 0) fail("tweak-aliases-input", "the block used as its own tweak (%s) gives a result different from the same bytes in separate buffers", d ? "in place" : "output elsewhere");
            distinct_add_u64(fnv1a(cur_case, strlen(cur_case), 9));
        }
    }
}

/* ---------------- key / tweak / counter arguments ---------------- */
static void run_setup_args(void)
{
    int a, c; unsigned len;
    Skinny128TweakedKey_t t128, r128; Skinny64TweakedKey_t t64, r64; MantisKey_t m1, m2;
    uint8_t *ptrs[1]; size_t lens[1]; int regs[1] = {0};
    for (len = 16; len <= 48; ++len) for (a = 0; a < 32; a += (tier_thorough() ? 1 : 3)) {
        uint8_t *k = place(0, a, len, KEY);
        cur_fn = "skinny128_set_key"; snprintf(cur_case, sizeof(cur_case), "c09 set_key128 len=%u key+%d", len, a);
        if (CASE_SKIP()) continue;
        memset(&t128, 0, sizeof(t128)); memset(&r128, 0, sizeof(r128));
        GUARDED(LIB(skinny128_set_key(&t128.ks, k, len))); ptrs[0] = k; lens[0] = len; after_call(1, regs, ptrs, lens);
        skinny128_set_key(&r128.ks, KEY, len);
        if (memcmp(&t128, &r128, sizeof(t128))) fail("result-depends-on-alignment", "schedule differs from the aligned call");
        if (len <= 32) {
            k = place(0, a, len, KEY);
            cur_fn = "skinny128_set_tweaked_key"; memset(&t128, 0, sizeof(t128)); memset(&r128, 0, sizeof(r128));
            GUARDED(LIB(skinny128_set_tweaked_key(&t128, k, len))); ptrs[0] = k; after_call(1, regs, ptrs, lens);
            skinny128_set_tweaked_key(&r128, KEY, len);
            if (memcmp(&t128, &r128, sizeof(t128))) fail("result-depends-on-alignment", "schedule differs from the aligned call");
        }
        distinct_add_u64(fnv1a(cur_case, strlen(cur_case), 9));
    }
    for (len = 8; len <= 24; ++len) for (a = 0; a < 32; a += (tier_thorough() ? 1 : 3)) {
        uint8_t *k = place(0, a, len, KEY);
        cur_fn = "skinny64_set_key"; snprintf(cur_case, sizeof(cur_case), "c09 set_key64 len=%u key+%d", len, a);
        if (CASE_SKIP()) continue;
        memset(&t64, 0, sizeof(t64)); memset(&r64, 0, sizeof(r64));
        GUARDED(LIB(skinny64_set_key(&t64.ks, k, len))); ptrs[0] = k; lens[0] = len; after_call(1, regs, ptrs, lens);
        skinny64_set_key(&r64.ks, KEY, len);
        if (memcmp(&t64, &r64, sizeof(t64))) fail("result-depends-on-alignment", "schedule differs from the aligned call");
        if (len <= 16) {
            k = place(0, a, len, KEY);
            cur_fn = "skinny64_set_tweaked_key"; memset(&t64, 0, sizeof(t64)); memset(&r64, 0, sizeof(r64));
            GUARDED(LIB(skinny64_set_tweaked_key(&t64, k, len))); ptrs[0] = k; after_call(1, regs, ptrs, lens);
            skinny64_set_tweaked_key(&r64, KEY, len);
            if (memcmp(&t64, &r64, sizeof(t64))) fail("result-depends-on-alignment", "schedule differs from the aligned call");
        }
        distinct_add_u64(fnv1a(cur_case, strlen(cur_case), 9));
    }
    /* tweaks of every length at every alignment */
    skinny128_set_tweaked_key(&t128, KEY, 16); skinny64_set_tweaked_key(&t64, KEY, 8);
    for (len = 1; len <= 16; ++len) for (a = 0; a < 32; ++a) {
        uint8_t *t = place(0, a, len, TWEAK);
        cur_fn = "skinny128_set_tweak"; snprintf(cur_case, sizeof(cur_case), "c09 set_tweak128 len=%u tweak+%d", len, a);
        if (CASE_SKIP()) continue;
        r128 = t128; GUARDED(LIB(skinny128_set_tweak(&t128, t, len))); ptrs[0] = t; lens[0] = len; after_call(1, regs, ptrs, lens);
        skinny128_set_tweak(&r128, TWEAK, len);
        if (memcmp(&t128, &r128, sizeof(t128))) fail("result-depends-on-alignment", "schedule differs from the aligned call");
        if (len <= 8) {
            t = place(0, a, len, TWEAK);
            cur_fn = "skinny64_set_tweak";
            r64 = t64; GUARDED(LIB(skinny64_set_tweak(&t64, t, len))); ptrs[0] = t; after_call(1, regs, ptrs, lens);
            skinny64_set_tweak(&r64, TWEAK, len);
            if (memcmp(&t64, &r64, sizeof(t64))) fail("result-depends-on-alignment", "schedule differs from the aligned call");
        }
        distinct_add_u64(fnv1a(cur_case, strlen(cur_case), 9));
    }
    for (a = 0; a < 32; ++a) {
        uint8_t *k = place(0, a, 16, KEY), *t;
        cur_fn = "mantis_set_key"; snprintf(cur_case, sizeof(cur_case), "c09 mantis key+%d", a);
        if (CASE_SKIP()) continue;
        memset(&m1, 0, sizeof(m1)); memset(&m2, 0, sizeof(m2));
        GUARDED(LIB(mantis_set_key(&m1, k, 16, 6, a & 1))); ptrs[0] = k; lens[0] = 16; after_call(1, regs, ptrs, lens);
        mantis_set_key(&m2, KEY, 16, 6, a & 1);
        t = place(0, a, 8, TWEAK);
        cur_fn = "mantis_set_tweak";
        GUARDED(LIB(mantis_set_tweak(&m1, t, 8))); ptrs[0] = t; lens[0] = 8; after_call(1, regs, ptrs, lens);
        mantis_set_tweak(&m2, TWEAK, 8);
        if (memcmp(&m1, &m2, sizeof(m1))) fail("result-depends-on-alignment", "schedule differs from the aligned call");
        distinct_add_u64(fnv1a(cur_case, strlen(cur_case), 9));
    }
    /* CTR key / tweak / counter arguments per back end */
    for (c = 0; c < 3; ++c) {
        int be, bs = cipher_bs((Cipher)c);
        for (be = 0; be <= cipher_max_be((Cipher)c); ++be) for (a = 0; a < 32; a += (tier_thorough() ? 1 : 5)) for (len = 0; len <= (unsigned)bs; ++len) {
            CtrObj o, r; uint8_t o1[40], o2[40]; uint8_t *k, *t, *cv; unsigned klen = c == CK_MANTIS ? 16 : (unsigned)bs + (len % ((unsigned)bs + 1));
            static const uint8_t z[40] = {0};
            arena_reset(); memset(&o, 0, sizeof(o)); memset(&r, 0, sizeof(r));
            ctr_init((Cipher)c, be, &o); ctr_init((Cipher)c, be, &r);
            snprintf(cur_case, sizeof(cur_case), "c09 ctr-args %s %s klen=%u clen=%u align+%d", cipher_name((Cipher)c), be_name(be), klen, len, a);
            if (CASE_SKIP()) continue;
            k = place(0, a, klen, KEY);
            cur_fn = "ctr_set_key";
            if (c != CK_MANTIS && (len & 1)) { GUARDED(ctr_set_tweaked_key((Cipher)c, &o, k, klen > 2u * (unsigned)bs ? 2u * (unsigned)bs : klen)); ctr_set_tweaked_key((Cipher)c, &r, KEY, klen > 2u * (unsigned)bs ? 2u * (unsigned)bs : klen); }
            else { GUARDED(ctr_set_key((Cipher)c, &o, k, klen, 5)); ctr_set_key((Cipher)c, &r, KEY, klen, 5); }
            ptrs[0] = k; lens[0] = klen; after_call(1, regs, ptrs, lens);
            if (len >= 1 && (c == CK_MANTIS ? len == 8 : (len & 1))) {
                t = place(0, a, len, TWEAK); cur_fn = "ctr_set_tweak";
                GUARDED(ctr_set_tweak((Cipher)c, &o, t, len)); ctr_set_tweak((Cipher)c, &r, TWEAK, len);
                ptrs[0] = t; lens[0] = len; after_call(1, regs, ptrs, lens);
            }
            cv = place(0, a, len, CTRV); cur_fn = "ctr_set_counter";
            GUARDED(ctr_set_counter((Cipher)c, &o, cv, len)); ctr_set_counter((Cipher)c, &r, CTRV, len);
            ptrs[0] = cv; lens[0] = len; after_call(1, regs, ptrs, lens);
            ctr_encrypt((Cipher)c, &o, o1, z, 33); ctr_encrypt((Cipher)c, &r, o2, z, 33);
            if (memcmp(o1, o2, 33)) fail("result-depends-on-alignment", "keystream differs from the aligned set-up");
            ctr_cleanup((Cipher)c, &o); ctr_cleanup((Cipher)c, &r);
            distinct_add_u64(fnv1a(cur_case, strlen(cur_case), 9));
        }
    }
}

/* ---------------- bulk functions ---------------- */
static void run_bulk(void)
{
    int c, be, ai, ao, li, mode, job_ctr = 0;
    for (c = 0; c < 3; ++c) for (be = 0; be <= cipher_max_be((Cipher)c); ++be) {
        int bs = cipher_bs((Cipher)c), batch = ctr_batch((Cipher)c, be), pb = par_batch((Cipher)c, be);
        int lens_[16], nl = 0;
        lens_[nl++] = 0; lens_[nl++] = 1; lens_[nl++] = bs - 1; lens_[nl++] = bs; lens_[nl++] = bs + 1; lens_[nl++] = batch - 1; lens_[nl++] = batch;
        lens_[nl++] = batch + 1; lens_[nl++] = 2 * batch + 1; lens_[nl++] = 3 * batch + bs + 1;
        /* CTR: placements x lengths, out-of-place and exactly aliased */
        for (li = 0; li < nl; ++li) for (mode = 0; mode < 3; ++mode) {
            if ((job_ctr++) % g_opts.nshards != g_opts.shard) continue;
            /* mode 0: vary in alignment, mode 1: vary out alignment, mode 2: aliased */
            int full = tier_thorough();
            for (ai = 0; ai < 32; ++ai) for (ao = 0; ao < 32; ++ao) {
                CtrObj o; size_t n = (size_t)lens_[li]; uint8_t *in, *out; static uint8_t ref[1024], got[1024];
                uint8_t *ptrs[2]; size_t ls[2]; int regs[2] = {0, 1};
                if (!full) { if (mode == 0 && ao != 5) continue; if (mode == 1 && ai != 11) continue; if (mode == 2 && ao != 0) continue; }
                else if (mode == 2 && ao != 0) continue;
                else if (mode == 1) continue;   /* thorough: mode 0 runs the full 32x32 */
                arena_reset(); memset(&o, 0, sizeof(o));
                ctr_init((Cipher)c, be, &o); ctr_set_key((Cipher)c, &o, KEY, c == CK_MANTIS ? 16 : (unsigned)bs * 2, 6); ctr_set_counter((Cipher)c, &o, CTRV, (unsigned)bs);
                ctr_encrypt((Cipher)c, &o, ref, DATA, n);
                ctr_set_counter((Cipher)c, &o, CTRV, (unsigned)bs);
                cur_fn = "ctr_encrypt";
                snprintf(cur_case, sizeof(cur_case), "c09 ctr %s %s len=%zu in+%d out+%d %s", cipher_name((Cipher)c), be_name(be), n, ai, ao, mode == 2 ? "aliased" : "");
                if (CASE_SKIP()) continue;
                in = place(0, ai, n, DATA);
                if (mode == 2) { out = in; is_input[0] = 0; } else out = place(1, ao, n, NULL);
                GUARDED(ctr_encrypt((Cipher)c, &o, out, in, n));
                ptrs[0] = in; ptrs[1] = out; ls[0] = n; ls[1] = n;
                after_call(mode == 2 ? 1 : 2, regs, ptrs, ls);
                memcpy(got, out, n);
                if (memcmp(got, ref, n) != 0) fail(mode == 2 ? "in-place" : "result-depends-on-alignment", "output differs from the aligned out-of-place call");
                ctr_cleanup((Cipher)c, &o);
                distinct_add_u64(fnv1a(cur_case, strlen(cur_case), 9));
            }
        }
        /* CTR, second request of a stream: the object carries left-over keystream from a first
         * request that stopped inside a batch (block-aligned or not); the second request is the one
         * placed between red zones */
        {
            int firsts[10], nf = 0, seconds[10], ns = 0, fi, si, pl;
            static const int PLACE[6][2] = {{0, 0}, {1, 5}, {11, 3}, {8, 8}, {16, 16}, {0, 16}};
            firsts[nf++] = bs; firsts[nf++] = 2 * bs; firsts[nf++] = bs + 3; firsts[nf++] = 5; if (batch > 2 * bs) { firsts[nf++] = batch - bs; firsts[nf++] = batch / 2; firsts[nf++] = batch - 1; }
            seconds[ns++] = 1; seconds[ns++] = 3; seconds[ns++] = bs - 1; seconds[ns++] = bs + 3; seconds[ns++] = batch + 5;
            /* long enough to use up the left-over keystream, run whole batches straight on the caller's buffers and end inside one */
            seconds[ns++] = 2 * batch + 5; seconds[ns++] = 3 * batch; seconds[ns++] = 4 * batch - 1;
            for (fi = 0; fi < nf; ++fi) for (si = 0; si < ns; ++si) {
                if ((job_ctr++) % g_opts.nshards != g_opts.shard) continue;
                for (pl = 0; pl < 6; ++pl) for (mode = 0; mode < 2; ++mode) {
                    CtrObj o; size_t n1 = (size_t)firsts[fi], n = (size_t)seconds[si]; uint8_t *in, *out; static uint8_t ref[1024], got[1024], first_out[1024];
                    uint8_t *ptrs[2]; size_t ls[2]; int regs[2] = {0, 1};
                    arena_reset(); memset(&o, 0, sizeof(o));
                    ctr_init((Cipher)c, be, &o); ctr_set_key((Cipher)c, &o, KEY, c == CK_MANTIS ? 16 : (unsigned)bs * 2, 6); ctr_set_counter((Cipher)c, &o, CTRV, (unsigned)bs);
                    ctr_encrypt((Cipher)c, &o, ref, DATA, n1 + n);                  /* one request: the reference stream */
                    ctr_set_counter((Cipher)c, &o, CTRV, (unsigned)bs);
                    ctr_encrypt((Cipher)c, &o, first_out, DATA, n1);
                    cur_fn = "ctr_encrypt";
                    snprintf(cur_case, sizeof(cur_case), "c09 ctr-second %s %s first=%zu len=%zu in+%d out+%d %s", cipher_name((Cipher)c), be_name(be), n1, n, PLACE[pl][0], PLACE[pl][1], mode ? "aliased" : "");
                    if (CASE_SKIP()) continue;
                    in = place(0, PLACE[pl][0], n, DATA + n1);
                    out = mode ? in : place(1, PLACE[pl][1], n, NULL); if (mode) is_input[0] = 0;
                    GUARDED(ctr_encrypt((Cipher)c, &o, out, in, n));
                    ptrs[0] = in; ptrs[1] = out; ls[0] = n; ls[1] = n;
                    after_call(mode ? 1 : 2, regs, ptrs, ls);
                    memcpy(got, out, n);
                    if (memcmp(got, ref + n1, n) != 0) fail(mode ? "in-place" : "result-depends-on-alignment", "second request of a stream differs from the same bytes of a single request");
                    ctr_cleanup((Cipher)c, &o);
                    distinct_add_u64(fnv1a(cur_case, strlen(cur_case), 9));
                }
            }
        }
        /* parallel ECB */
        {
            int pl[12], np = 0, dir, twin;
            pl[np++] = 0; pl[np++] = bs; pl[np++] = pb - bs; pl[np++] = pb; pl[np++] = pb + bs; pl[np++] = 2 * pb + bs; pl[np++] = 3 * pb + 2 * bs;
            pl[np++] = pb + pb / 2; pl[np++] = 2 * pb + pb - bs;        /* a tail of half a batch, and of a batch less one block */
            if (5 * pb + bs <= 1000) pl[np++] = 5 * pb + bs;              /* more than four batches and a tail (an unrolled loop has run at least once) */
            for (li = 0; li < np; ++li) for (dir = 0; dir < 2; ++dir) for (mode = 0; mode < 2; ++mode) { if ((job_ctr++) % g_opts.nshards != g_opts.shard) continue; for (ai = 0; ai < 32; ++ai) for (ao = 0; ao < 32; ++ao) {
                ParObj o; size_t n = (size_t)pl[li]; uint8_t *in, *out, *tw; static uint8_t ref[1024], got[1024];
                uint8_t *ptrs[3]; size_t ls[3]; int regs[3] = {0, 1, 2};
                if (!tier_thorough() && !((ao == 3 || ai == 9) && (ai + ao) % 2 == 0) && !(mode == 1)) continue;
                if (mode == 1 && ao != 0) continue;
                if (c == CK_MANTIS && dir) continue;
                arena_reset(); memset(&o, 0, sizeof(o));
                par_init((Cipher)c, be, &o); par_set_key((Cipher)c, &o, KEY, c == CK_MANTIS ? 16 : (unsigned)bs * 3, 8, MANTIS_ENCRYPT);
                par_crypt((Cipher)c, &o, ref, DATA, TW, n, dir);
                cur_fn = "parallel_ecb_crypt";
                /* every seventh placement of a Mantis call: the per-block tweak array is the input array itself (two inputs may share memory) */
                twin = c == CK_MANTIS && ((ai + ao) % 7) == 3;
                snprintf(cur_case, sizeof(cur_case), "c09 par %s %s len=%zu dir=%d in+%d out+%d %s%s", cipher_name((Cipher)c), be_name(be), n, dir, ai, ao, mode ? "aliased" : "", twin ? " tweaks=input" : "");
                if (CASE_SKIP()) continue;
                in = place(0, ai, n, DATA);
                out = mode ? in : place(1, ao, n, NULL); if (mode) is_input[0] = 0;
                tw = place(2, (ai * 5 + ao) & 31, c == CK_MANTIS ? n : 1, TW);
                if (twin) { static uint8_t c1[1024], c2[1024]; memcpy(c1, DATA, n); memcpy(c2, DATA, n); par_crypt((Cipher)c, &o, ref, c1, c2, n, dir); }
                GUARDED(par_crypt((Cipher)c, &o, out, in, twin ? in : tw, n, dir));
                ptrs[0] = in; ptrs[1] = out; ptrs[2] = tw; ls[0] = n; ls[1] = n; ls[2] = c == CK_MANTIS ? n : 1;
                if (mode) { ptrs[1] = tw; ls[1] = ls[2]; regs[1] = 2; after_call(2, regs, ptrs, ls); } else after_call(3, regs, ptrs, ls);
                memcpy(got, out, n);
                if (memcmp(got, ref, n) != 0) fail(mode ? "in-place" : "result-depends-on-alignment", "output differs from the aligned out-of-place call");
                par_cleanup((Cipher)c, &o);
                distinct_add_u64(fnv1a(cur_case, strlen(cur_case), 9));
            } }
        }
    }
}

/* positive control: a copy routine that over-reads one byte */
static void __attribute__((noinline)) ctl_copy(uint8_t *dst, const uint8_t *src, size_t n)
{
    size_t i; volatile uint8_t sink;
    for (i = 0; i < n; ++i) dst[i] = src[i];
    sink = src[n]; (void)sink;
}

static void body(void)
{
    pool_init();
    lcg_fill(KEY, 48, 1); lcg_fill(TWEAK, 16, 2); lcg_fill(CTRV, 16, 3); memset(CTRV, 0xFF, 9); lcg_fill(DATA, sizeof(DATA), 4); lcg_fill(TW, sizeof(TW), 5);
    if (RUNNING_ON_VALGRIND) {
        uint8_t *in = place(0, 3, 10, DATA), *out = place(1, 0, 10, NULL); unsigned long e0 = VALGRIND_COUNT_ERRORS;
        ctl_copy(out, in, 10);
        unprotect_all();
        if (VALGRIND_COUNT_ERRORS == e0) engine_error("positive control missed: one-byte over-read not reported by memcheck");
        last_errs = VALGRIND_COUNT_ERRORS;
        note_num("under_valgrind", 1);
    } else note_num("under_valgrind", 0);
    if (!g_opts.sub || !strcmp(g_opts.sub, "single")) run_single();
    if ((!g_opts.sub || !strcmp(g_opts.sub, "setup")) && g_opts.shard == 0) run_setup_args();
    if (!g_opts.sub || !strcmp(g_opts.sub, "bulk")) run_bulk();
    sample_add("skinny128_ecb_encrypt with input at +17, output at +5 inside NOACCESS red zones; overlap out=in-3");
    sample_add("skinny128_ctr_encrypt on v256, 257 bytes, input at +11, output at +5; exactly aliased at +31");
}

int main(int argc, char **argv)
{
    parse_opts(argc, argv);
    run_prelude();
    return mc_guarded_main(body);
}
