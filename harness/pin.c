/*
 * Back-end pinning seam (no source change): the library's CPU probes are
 * replaced at link time (-Wl,--wrap=_skinny_has_vec128,--wrap=_skinny_has_vec256).
 * The wrapper never reports a back end the host cannot execute: the request is
 * ANDed with the compiler's own CPU detection, not with the library's probe
 * (the library's probe is itself the subject of C13 and runs unwrapped there).
 */
#include "common.h"

int g_pin = BE_GEN;

int host_max_backend(void)
{
    static int cached = -1;
    if (cached < 0) {
        __builtin_cpu_init();
        cached = BE_GEN;
        if (__builtin_cpu_supports("sse2")) cached = BE_V128;
        if (cached == BE_V128 && __builtin_cpu_supports("avx2")) cached = BE_V256;
    }
    return cached;
}

int max_backend(void)
{
    int h = host_max_backend();
    return h < g_opts.maxbe ? h : g_opts.maxbe;
}

const char *be_name(int be)
{
    return be == BE_GEN ? "gen" : (be == BE_V128 ? "v128" : "v256");
}

int __wrap__skinny_has_vec128(void)
{
    return g_pin >= BE_V128 && host_max_backend() >= BE_V128;
}

int __wrap__skinny_has_vec256(void)
{
    return g_pin >= BE_V256 && host_max_backend() >= BE_V256;
}
