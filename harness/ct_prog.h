/* Operation programs traced by the constant-time checks (shared by the IR-level tracer
 * h_ct.c and the machine-level lackey driver h_ct2.c). */
#ifndef VERIF_CT_PROG_H
#define VERIF_CT_PROG_H
#include "common.h"
#include "obj.h"
#include "alloc.h"
#include <string.h>

/* ---------------- programs ---------------- */
typedef struct {
    uint8_t key[48], tweak[16], counter[16], data[400], tw[400];
    uint8_t counter2[16];      /* P_SEEK: the counter of the second set_counter */
} Secret;

typedef struct {
    int prog;          /* program id */
    Cipher c; int be;
    int klen, tweaked, tlen, clen, rounds, mode, size;
} Pub;

/* persistent objects for the current combination */
static struct {
    Skinny128Key_t k128; Skinny64Key_t k64; MantisKey_t km; Skinny128TweakedKey_t t128; Skinny64TweakedKey_t t64;
    CtrObj co; ParObj po;
    uint8_t out[512], out2[512];
} O;

extern uint8_t ctl_table_sbox(uint8_t x);

enum { P_BLOCK, P_TWEAKED, P_MANTIS, P_CTR, P_PAR, P_CONTROL, P_SEEK };
static const char *PNAME[] = {"set_key+ecb_encrypt+ecb_decrypt", "set_tweaked_key+set_tweak+ecb", "mantis set_key/set_tweak/crypt/crypt_tweaked/swap_modes",
                              "ctr set_key/set_tweak/set_counter/encrypt/rekey/encrypt", "parallel set_key/encrypt/decrypt", "CONTROL table-lookup S-box",
                              "ctr set_key/set_counter/encrypt(part of a batch)/set_counter/encrypt"};

static inline void ct_prog_body(const Pub *p, const Secret *s)
{
    switch (p->prog) {
    case P_BLOCK:
        if (p->c == CK_S128) { skinny128_set_key(&O.k128, s->key, (unsigned)p->klen); skinny128_ecb_encrypt(O.out, s->data, &O.k128); skinny128_ecb_decrypt(O.out + 16, s->data + 16, &O.k128); }
        else { skinny64_set_key(&O.k64, s->key, (unsigned)p->klen); skinny64_ecb_encrypt(O.out, s->data, &O.k64); skinny64_ecb_decrypt(O.out + 8, s->data + 8, &O.k64); }
        break;
    case P_TWEAKED:
        if (p->c == CK_S128) { skinny128_set_tweaked_key(&O.t128, s->key, (unsigned)p->klen); skinny128_set_tweak(&O.t128, s->tweak, (unsigned)p->tlen); skinny128_set_tweak(&O.t128, s->tweak + 1, (unsigned)p->tlen > 15 ? 15u : (unsigned)p->tlen);
                               skinny128_ecb_encrypt(O.out, s->data, &O.t128.ks); skinny128_ecb_decrypt(O.out + 16, s->data + 16, &O.t128.ks); }
        else { skinny64_set_tweaked_key(&O.t64, s->key, (unsigned)p->klen); skinny64_set_tweak(&O.t64, s->tweak, (unsigned)p->tlen); skinny64_ecb_encrypt(O.out, s->data, &O.t64.ks); skinny64_ecb_decrypt(O.out + 8, s->data + 8, &O.t64.ks); }
        break;
    case P_MANTIS:
        mantis_set_key(&O.km, s->key, 16, (unsigned)p->rounds, p->mode); mantis_set_tweak(&O.km, s->tweak, 8); mantis_ecb_crypt(O.out, s->data, &O.km);
        mantis_ecb_crypt_tweaked(O.out + 8, s->data + 8, s->tw, &O.km); mantis_swap_modes(&O.km); mantis_ecb_crypt(O.out + 16, s->data, &O.km);
        break;
    case P_CTR:
        if (p->tweaked) { ctr_set_tweaked_key(p->c, &O.co, s->key, (unsigned)p->klen); ctr_set_tweak(p->c, &O.co, s->tweak, (unsigned)p->tlen); }
        else { ctr_set_key(p->c, &O.co, s->key, (unsigned)p->klen, (unsigned)p->rounds); if (p->c == CK_MANTIS) ctr_set_tweak(p->c, &O.co, s->tweak, 8); }
        ctr_set_counter(p->c, &O.co, s->counter, (unsigned)p->clen);
        ctr_encrypt(p->c, &O.co, O.out, s->data, (size_t)p->size);
        ctr_set_key(p->c, &O.co, s->key + 1, p->c == CK_MANTIS ? 16 : (unsigned)cipher_bs(p->c), (unsigned)p->rounds);   /* mid-stream re-key: keystream reset path */
        ctr_encrypt(p->c, &O.co, O.out2, s->data + 7, (size_t)(p->size > 40 ? 40 : p->size));
        break;
    case P_SEEK:      /* a second set_counter while part of a keystream batch is still unread, no re-key in between */
        if (p->tweaked) { ctr_set_tweaked_key(p->c, &O.co, s->key, (unsigned)p->klen); ctr_set_tweak(p->c, &O.co, s->tweak, (unsigned)p->tlen); }
        else { ctr_set_key(p->c, &O.co, s->key, (unsigned)p->klen, (unsigned)p->rounds); if (p->c == CK_MANTIS) ctr_set_tweak(p->c, &O.co, s->tweak, 8); }
        ctr_set_counter(p->c, &O.co, s->counter, (unsigned)p->clen);
        ctr_encrypt(p->c, &O.co, O.out, s->data, (size_t)p->size);
        ctr_set_counter(p->c, &O.co, s->counter2, (unsigned)p->clen);
        ctr_encrypt(p->c, &O.co, O.out2, s->data + 7, 40);
        break;
    case P_PAR:
        par_set_key(p->c, &O.po, s->key, (unsigned)p->klen, (unsigned)p->rounds, p->mode);
        par_crypt(p->c, &O.po, O.out, s->data, s->tw, (size_t)p->size, 0);
        par_crypt(p->c, &O.po, O.out2, s->data, s->tw, (size_t)p->size, 1);
        break;
    default:
        O.out[0] = ctl_table_sbox(s->data[0]);
        break;
    }
}

static void base_secret(Secret *s)
{
    lcg_fill(s->key, 48, 501 + (uint32_t)g_opts.seed); lcg_fill(s->tweak, 16, 502); lcg_fill(s->counter, 16, 503);
    lcg_fill(s->data, sizeof(s->data), 504); lcg_fill(s->tw, sizeof(s->tw), 505); lcg_fill(s->counter2, 16, 506);
}


/* P_SEEK: the second counter in a fixed relation to the first (same value, the blocks of the batch
 * that is still buffered, the blocks just before and after it): k-th alternative, 0 when exhausted */
static inline int ct_related_counter(const Pub *p, const Secret *base, Secret *alt, int k)
{
    static const int OFFS[] = {0, 1, 2, 3, 4, 5, 6, 7, 8, 9, 15, 16, 17, 31, 32, 33, -1, -2, -7, -8, -9, -16, -17, 255, 256, -256};
    int L = p->clen, i; long carry;
    if (k < 0 || k >= (int)(sizeof(OFFS) / sizeof(OFFS[0])) || L < 1) return 0;
    *alt = *base;
    memcpy(alt->counter2, base->counter, 16);
    carry = OFFS[k];
    for (i = L - 1; i >= 0; --i) { long v = (long)alt->counter2[i] + (carry & 0xFF) ; long c2 = carry >> 8; alt->counter2[i] = (uint8_t)v; carry = c2 + (v >> 8); }
    return 1;
}

/* the standard list of public-parameter combinations */
static int ct_combos(Pub *out, int cap, int thorough)
{
    Pub p; int c, be, k, i, n = 0;
#define CT_ADD() do { if (n < cap) out[n++] = p; } while (0)
    for (c = 0; c < 2; ++c) {
        int bs = cipher_bs((Cipher)c);
        for (k = 1; k <= 3; ++k) { memset(&p, 0, sizeof(p)); p.prog = P_BLOCK; p.c = (Cipher)c; p.klen = k * bs; CT_ADD(); }
        memset(&p, 0, sizeof(p)); p.prog = P_BLOCK; p.c = (Cipher)c; p.klen = bs + 3; CT_ADD();
        memset(&p, 0, sizeof(p)); p.prog = P_BLOCK; p.c = (Cipher)c; p.klen = 2 * bs + 5; CT_ADD();
        for (k = 1; k <= 2; ++k) for (i = 0; i < 3; ++i) { memset(&p, 0, sizeof(p)); p.prog = P_TWEAKED; p.c = (Cipher)c; p.klen = k * bs; p.tweaked = 1; p.tlen = i == 0 ? bs : (i == 1 ? 1 : bs - 3); CT_ADD(); }
    }
    for (k = 5; k <= 8; ++k) for (i = 0; i < 2; ++i) { memset(&p, 0, sizeof(p)); p.prog = P_MANTIS; p.c = CK_MANTIS; p.rounds = k; p.mode = i; p.klen = 16; CT_ADD(); }
    for (c = 0; c < 3; ++c) for (be = 0; be <= cipher_max_be((Cipher)c); ++be) {
        int bs = cipher_bs((Cipher)c), batch = ctr_batch((Cipher)c, be);
        int sizes[7], ns = 0, si, kv;
        sizes[ns++] = 1; sizes[ns++] = bs - 1; sizes[ns++] = bs; sizes[ns++] = bs + 1; sizes[ns++] = batch; sizes[ns++] = batch + 1; sizes[ns++] = 2 * batch + 3;
        for (si = 0; si < ns; ++si) for (kv = 0; kv < (c == CK_MANTIS ? 2 : 4); ++kv) {
            memset(&p, 0, sizeof(p)); p.prog = P_CTR; p.c = (Cipher)c; p.be = be; p.size = sizes[si];
            if (c == CK_MANTIS) { p.klen = 16; p.rounds = kv ? 8 : 5; p.clen = kv ? 8 : 3; }
            else { p.tweaked = kv >= 2; p.klen = (kv & 1) ? 2 * bs : bs; p.tlen = kv == 3 ? 5 : bs; p.clen = (kv & 1) ? bs : bs - 2; if (kv == 1) p.klen = 3 * bs; }
            if (!thorough && kv >= 2 && si != 3 && si != 5) continue;
            CT_ADD();
        }
        for (si = 0; si < 3; ++si) for (kv = 0; kv < 2; ++kv) {
            memset(&p, 0, sizeof(p)); p.prog = P_SEEK; p.c = (Cipher)c; p.be = be; p.size = si == 0 ? bs + 4 : (si == 1 ? batch / 2 + 1 : batch + 3);
            if (c == CK_MANTIS) { p.klen = 16; p.rounds = kv ? 8 : 6; p.clen = kv ? 8 : 5; }
            else { p.tweaked = kv; p.klen = kv ? bs : 2 * bs; p.tlen = bs; p.clen = kv ? bs - 1 : bs; }
            if (!thorough && kv && si != 1) continue;
            CT_ADD();
        }
        for (si = 0; si < 4; ++si) for (kv = 0; kv < 2; ++kv) {
            int pb = par_batch((Cipher)c, be);
            memset(&p, 0, sizeof(p)); p.prog = P_PAR; p.c = (Cipher)c; p.be = be;
            p.size = si == 0 ? bs : (si == 1 ? pb : (si == 2 ? pb + bs : 2 * pb + 3 * bs));
            p.klen = c == CK_MANTIS ? 16 : (kv ? 3 * bs : bs); p.rounds = kv ? 8 : 6; p.mode = kv;
            CT_ADD();
        }
    }
#undef CT_ADD
    return n;
}

#endif
