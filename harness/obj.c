#include "obj.h"
#include <string.h>
#include "skinny128-ctr-internal.h"
#include "skinny64-ctr-internal.h"
#include "mantis-ctr-internal.h"

void _skinny128_parallel_encrypt_vec128(void *output, const void *input, const Skinny128Key_t *ks);
void _skinny128_parallel_encrypt_vec256(void *output, const void *input, const Skinny128Key_t *ks);
void _skinny64_parallel_encrypt_vec128(void *output, const void *input, const Skinny64Key_t *ks);
void _skinny128_parallel_decrypt_vec128(void *output, const void *input, const Skinny128Key_t *ks);
void _skinny128_parallel_decrypt_vec256(void *output, const void *input, const Skinny128Key_t *ks);
void _skinny64_parallel_decrypt_vec128(void *output, const void *input, const Skinny64Key_t *ks);
void _mantis_parallel_crypt_vec128(void *output, const void *input, const void *tweak, const MantisKey_t *ks);

const char *cipher_name(Cipher c)
{
    return c == CK_S128 ? "skinny128" : (c == CK_S64 ? "skinny64" : "mantis");
}

int cipher_bs(Cipher c) { return c == CK_S128 ? 16 : 8; }

int cipher_max_be(Cipher c)
{
    int m = max_backend();
    if (c != CK_S128 && m > BE_V128) m = BE_V128;
    return m;
}

int ctr_batch(Cipher c, int be)
{
    if (c == CK_S128) return be == BE_GEN ? 16 : (be == BE_V128 ? 64 : 128);
    return be == BE_GEN ? 8 : 64;
}

int par_batch(Cipher c, int be)
{
    if (c == CK_S128) return be == BE_V256 ? 128 : 64;
    return 64;
}

/* A handle that does not own a live context is, to the library, uninitialised memory: it is
 * painted (0xA5, or the --paint pattern; poisoned under MemorySanitizer) right before every
 * init, so that an init that leaves a field unassigned cannot hide behind a zeroed object. */
int g_obj_keep_prior;    /* set by a harness that chooses the prior content of the handle itself (C16) */

static void paint_dead_handle(void *o, size_t n, void *const *ctx_field)
{
    void *ctx; AllocRec *r;
    if (g_obj_keep_prior) return;
    memcpy(&ctx, ctx_field, sizeof(ctx)); verif_unpoison(&ctx, sizeof(ctx));   /* may itself be painted memory */
    r = ctx ? arena_find(ctx) : NULL;
    if (r && r->live) return;          /* re-initialising a live object: left exactly as it is */
    verif_paint_obj(o, n);
}

int ctr_init(Cipher c, int be, CtrObj *o)
{
    int r = -99;
    g_pin = be;
    if (o) paint_dead_handle(o, sizeof(*o), &o->raw.ctx);
    switch (c) {
    case CK_S128: LIB(r = skinny128_ctr_init(o ? &o->s128 : NULL)); break;
    case CK_S64: LIB(r = skinny64_ctr_init(o ? &o->s64 : NULL)); break;
    case CK_MANTIS: LIB(r = mantis_ctr_init(o ? &o->m : NULL)); break;
    }
    return r;
}

void ctr_cleanup(Cipher c, CtrObj *o)
{
    switch (c) {
    case CK_S128: LIB(skinny128_ctr_cleanup(o ? &o->s128 : NULL)); break;
    case CK_S64: LIB(skinny64_ctr_cleanup(o ? &o->s64 : NULL)); break;
    case CK_MANTIS: LIB(mantis_ctr_cleanup(o ? &o->m : NULL)); break;
    }
}

/* The library has to copy what it needs from key, tweak and counter arguments: when g_obj_args_copy is set (harnesses
 * whose argument buffers are always at least as long as the length they pass, for lengths up to 256) the setters hand
 * over a scratch copy and overwrite it as soon as the call returns (poisoned under MemorySanitizer). */
int g_obj_args_copy;
static uint8_t argscratch[384];
static const void *arg_in(const void *p, unsigned len)
{
    if (!g_obj_args_copy || !p || len == 0 || len > 256) return p;
    memcpy(argscratch + 64, p, len);
    return argscratch + 64;
}
static void arg_done(const void *used, unsigned len)
{
    if (used == argscratch + 64) verif_paint_obj(argscratch + 64, len);
}

int ctr_set_key(Cipher c, CtrObj *o, const void *key, unsigned len, unsigned rounds)
{
    int r = -99;
    key = arg_in(key, len);
    switch (c) {
    case CK_S128: LIB(r = skinny128_ctr_set_key(o ? &o->s128 : NULL, key, len)); break;
    case CK_S64: LIB(r = skinny64_ctr_set_key(o ? &o->s64 : NULL, key, len)); break;
    case CK_MANTIS: LIB(r = mantis_ctr_set_key(o ? &o->m : NULL, key, len, rounds)); break;
    }
    arg_done(key, len);
    return r;
}

int ctr_set_tweaked_key(Cipher c, CtrObj *o, const void *key, unsigned len)
{
    int r = -99;
    key = arg_in(key, len);
    switch (c) {
    case CK_S128: LIB(r = skinny128_ctr_set_tweaked_key(o ? &o->s128 : NULL, key, len)); break;
    case CK_S64: LIB(r = skinny64_ctr_set_tweaked_key(o ? &o->s64 : NULL, key, len)); break;
    default: break;
    }
    arg_done(key, len);
    return r;
}

int ctr_set_tweak(Cipher c, CtrObj *o, const void *tweak, unsigned len)
{
    int r = -99;
    tweak = arg_in(tweak, len);
    switch (c) {
    case CK_S128: LIB(r = skinny128_ctr_set_tweak(o ? &o->s128 : NULL, tweak, len)); break;
    case CK_S64: LIB(r = skinny64_ctr_set_tweak(o ? &o->s64 : NULL, tweak, len)); break;
    case CK_MANTIS: LIB(r = mantis_ctr_set_tweak(o ? &o->m : NULL, tweak, len)); break;
    }
    arg_done(tweak, len);
    return r;
}

int ctr_set_counter(Cipher c, CtrObj *o, const void *counter, unsigned len)
{
    int r = -99;
    counter = arg_in(counter, len);
    switch (c) {
    case CK_S128: LIB(r = skinny128_ctr_set_counter(o ? &o->s128 : NULL, counter, len)); break;
    case CK_S64: LIB(r = skinny64_ctr_set_counter(o ? &o->s64 : NULL, counter, len)); break;
    case CK_MANTIS: LIB(r = mantis_ctr_set_counter(o ? &o->m : NULL, counter, len)); break;
    }
    arg_done(counter, len);
    return r;
}

int ctr_encrypt(Cipher c, CtrObj *o, void *out, const void *in, size_t len)
{
    int r = -99;
    switch (c) {
    case CK_S128: LIB(r = skinny128_ctr_encrypt(out, in, len, o ? &o->s128 : NULL)); break;
    case CK_S64: LIB(r = skinny64_ctr_encrypt(out, in, len, o ? &o->s64 : NULL)); break;
    case CK_MANTIS: LIB(r = mantis_ctr_encrypt(out, in, len, o ? &o->m : NULL)); break;
    }
    return r;
}

int ctr_backend(Cipher c, const CtrObj *o)
{
    const void *v = o->raw.vtable;
    if (!v) return -1;
    switch (c) {
    case CK_S128:
        if (v == (const void *)&_skinny128_ctr_vec128) return BE_V128;
        if (v == (const void *)&_skinny128_ctr_vec256) return BE_V256;
        break;
    case CK_S64:
        if (v == (const void *)&_skinny64_ctr_vec128) return BE_V128;
        break;
    case CK_MANTIS:
        if (v == (const void *)&_mantis_ctr_vec128) return BE_V128;
        break;
    }
    /* the generic vtable is a static object: identify it by its text/rodata neighbourhood */
    {
        extern char __executable_start[], _end[];
        if ((const char *)v >= __executable_start && (const char *)v < _end) return BE_GEN;
    }
    return -2;
}

int par_init(Cipher c, int be, ParObj *o)
{
    int r = -99;
    g_pin = be;
    if (o) paint_dead_handle(o, sizeof(*o), &o->raw.ctx);
    switch (c) {
    case CK_S128: LIB(r = skinny128_parallel_ecb_init(o ? &o->s128 : NULL)); break;
    case CK_S64: LIB(r = skinny64_parallel_ecb_init(o ? &o->s64 : NULL)); break;
    case CK_MANTIS: LIB(r = mantis_parallel_ecb_init(o ? &o->m : NULL)); break;
    }
    return r;
}

void par_cleanup(Cipher c, ParObj *o)
{
    switch (c) {
    case CK_S128: LIB(skinny128_parallel_ecb_cleanup(o ? &o->s128 : NULL)); break;
    case CK_S64: LIB(skinny64_parallel_ecb_cleanup(o ? &o->s64 : NULL)); break;
    case CK_MANTIS: LIB(mantis_parallel_ecb_cleanup(o ? &o->m : NULL)); break;
    }
}

int par_set_key(Cipher c, ParObj *o, const void *key, unsigned len, unsigned rounds, int mode)
{
    int r = -99;
    key = arg_in(key, len);
    switch (c) {
    case CK_S128: LIB(r = skinny128_parallel_ecb_set_key(o ? &o->s128 : NULL, key, len)); break;
    case CK_S64: LIB(r = skinny64_parallel_ecb_set_key(o ? &o->s64 : NULL, key, len)); break;
    case CK_MANTIS: LIB(r = mantis_parallel_ecb_set_key(o ? &o->m : NULL, key, len, rounds, mode)); break;
    }
    arg_done(key, len);
    return r;
}

int par_crypt(Cipher c, const ParObj *o, void *out, const void *in, const void *tweak, size_t len, int dir)
{
    int r = -99;
    switch (c) {
    case CK_S128:
        if (dir) LIB(r = skinny128_parallel_ecb_decrypt(out, in, len, o ? &o->s128 : NULL));
        else     LIB(r = skinny128_parallel_ecb_encrypt(out, in, len, o ? &o->s128 : NULL));
        break;
    case CK_S64:
        if (dir) LIB(r = skinny64_parallel_ecb_decrypt(out, in, len, o ? &o->s64 : NULL));
        else     LIB(r = skinny64_parallel_ecb_encrypt(out, in, len, o ? &o->s64 : NULL));
        break;
    case CK_MANTIS:
        LIB(r = mantis_parallel_ecb_crypt(out, in, tweak, len, o ? &o->m : NULL));
        break;
    }
    return r;
}

void par_swap_modes(ParObj *o)
{
    LIB(mantis_parallel_ecb_swap_modes(o ? &o->m : NULL));
}

int par_backend(Cipher c, const ParObj *o)
{
    const void *v = o->raw.vtable;
    void *fn, *fn2;
    if (!v) return BE_GEN;       /* the parallel objects use a null vtable for "no SIMD" */
    {
        extern char __executable_start[], _end[];
        if (!((const char *)v >= __executable_start && (const char *)v < _end)) return -2;
    }
    memcpy(&fn, v, sizeof(fn));
    memcpy(&fn2, (const char *)v + sizeof(fn), sizeof(fn2));      /* the Skinny tables have a second slot: decrypt */
    switch (c) {
    case CK_S128:
        if (fn == (void *)_skinny128_parallel_encrypt_vec128) return fn2 == (void *)_skinny128_parallel_decrypt_vec128 ? BE_V128 : -3;
        if (fn == (void *)_skinny128_parallel_encrypt_vec256) return fn2 == (void *)_skinny128_parallel_decrypt_vec256 ? BE_V256 : -3;
        break;
    case CK_S64:
        if (fn == (void *)_skinny64_parallel_encrypt_vec128) return fn2 == (void *)_skinny64_parallel_decrypt_vec128 ? BE_V128 : -3;
        break;
    case CK_MANTIS:
        if (fn == (void *)_mantis_parallel_crypt_vec128) return BE_V128;
        break;
    }
    return -2;
}

static size_t image_of(const void *vt_class, const void *ctx, size_t extra, uint8_t *buf, size_t cap)
{
    size_t o = 0;
    AllocRec *r;
    uint64_t tag;
    if (cap < 64) return 0;
    memcpy(buf + o, &vt_class, sizeof(void *)); o += sizeof(void *);
    memcpy(buf + o, &extra, sizeof(extra)); o += sizeof(extra);
    if (!ctx) { buf[o++] = 'N'; return o; }
    r = arena_find(ctx);
    if (!r) { buf[o++] = 'F'; return o; }        /* foreign / dangling pointer */
    buf[o++] = r->live ? 'L' : 'D';
    tag = (uint64_t)(r - arena_rec(0)); memcpy(buf + o, &tag, 8); o += 8;
    tag = (uint64_t)((const uint8_t *)ctx - r->ptr); memcpy(buf + o, &tag, 8); o += 8;
    tag = r->size; memcpy(buf + o, &tag, 8); o += 8;
    if (r->live && o + r->size <= cap) {
        size_t i;
        tag = verif_shadow_sig(r->ptr, r->size);   /* which bytes of the block are uninitialised is part of the image */
        memcpy(buf + o, r->ptr, r->size);
        verif_unpoison(buf + o, r->size);   /* the harness may look at bytes the library never wrote; only the library may not use them */
        /* normalise self-pointers (base_ptr) */
        for (i = 0; i + 8 <= r->size; ++i) {
            uint64_t w;
            memcpy(&w, buf + o + i, 8);
            if (w == (uint64_t)(uintptr_t)r->ptr) { w = 0xBA5EBA5EBA5EBA5EULL; memcpy(buf + o + i, &w, 8); i += 7; }
        }
        o += r->size;
        if (o + 8 <= cap) { memcpy(buf + o, &tag, 8); o += 8; }
    }
    return o;
}

size_t ctr_image(Cipher c, const CtrObj *o, uint8_t *buf, size_t cap)
{
    intptr_t cls = ctr_backend(c, o);
    return image_of((const void *)cls, o->raw.ctx, 0, buf, cap);
}

size_t par_image(Cipher c, const ParObj *o, uint8_t *buf, size_t cap)
{
    intptr_t cls = par_backend(c, o);
    return image_of((const void *)cls, o->raw.ctx, o->raw.parallel_size, buf, cap);
}

int blk_crypt(Cipher c, const uint8_t *key, unsigned klen, unsigned rounds, int dir,
              const uint8_t *in, uint8_t *out)
{
    if (c == CK_S128) {
        Skinny128Key_t ks;
        if (skinny128_set_key(&ks, key, klen) != 1) return 0;
        if (dir) skinny128_ecb_decrypt(out, in, &ks); else skinny128_ecb_encrypt(out, in, &ks);
    } else if (c == CK_S64) {
        Skinny64Key_t ks;
        if (skinny64_set_key(&ks, key, klen) != 1) return 0;
        if (dir) skinny64_ecb_decrypt(out, in, &ks); else skinny64_ecb_encrypt(out, in, &ks);
    } else {
        MantisKey_t ks;
        if (mantis_set_key(&ks, key, klen, rounds, dir ? MANTIS_DECRYPT : MANTIS_ENCRYPT) != 1) return 0;
        mantis_ecb_crypt(out, in, &ks);
    }
    return 1;
}
