/*
 * cfg (C12): one deterministic battery through the public API, identical in every
 * build configuration; prints one digest per section (out_digest tags).  The driver
 * builds the library in every configuration of the cross product, runs this battery
 * pinned to each back end the configuration contains, and requires every digest to be
 * identical across all (configuration, back end) pairs.  Nothing here depends on which
 * back ends are compiled in: alphabets are fixed.
 * usage: --sub be<N>
 */
#include "common.h"
#include "alloc.h"
#include "obj.h"
#include "mc.h"
#include <string.h>
#include <stdlib.h>

static int BE;
static uint8_t KEYS[2][48];

/* ---- section 1/2/4: block functions over the quick families ---- */
typedef struct { int bs, klen, dir, kind, rounds, mode; } BCtx;   /* kind 0 skinny, 1 tweaked skinny, 2 mantis */

static void blk_case(const uint8_t *buf, size_t m, void *arg)
{
    BCtx *c = arg; uint8_t out[16];
    (void)m;
    ++g_cnt.evaluations;
    if (c->kind == 0) {
        if (c->bs == 16) { Skinny128Key_t ks; if (skinny128_set_key(&ks, buf, (unsigned)c->klen) != 1) return; if (c->dir) skinny128_ecb_decrypt(out, buf + c->klen, &ks); else skinny128_ecb_encrypt(out, buf + c->klen, &ks); out_digest("S1-skinny128-block", out, 16); }
        else { Skinny64Key_t ks; if (skinny64_set_key(&ks, buf, (unsigned)c->klen) != 1) return; if (c->dir) skinny64_ecb_decrypt(out, buf + c->klen, &ks); else skinny64_ecb_encrypt(out, buf + c->klen, &ks); out_digest("S1-skinny64-block", out, 8); }
    } else if (c->kind == 1) {
        const uint8_t *tweak = buf, *key = buf + c->bs, *blk = buf + c->bs + c->klen;
        if (c->bs == 16) { Skinny128TweakedKey_t tk; if (skinny128_set_tweaked_key(&tk, key, (unsigned)c->klen) != 1) return; skinny128_set_tweak(&tk, tweak + 3, 5); skinny128_set_tweak(&tk, tweak, 16);
            if (c->dir) skinny128_ecb_decrypt(out, blk, &tk.ks); else skinny128_ecb_encrypt(out, blk, &tk.ks); out_digest("S4-skinny128-tweaked-block", out, 16); }
        else { Skinny64TweakedKey_t tk; if (skinny64_set_tweaked_key(&tk, key, (unsigned)c->klen) != 1) return; skinny64_set_tweak(&tk, tweak + 3, 5); skinny64_set_tweak(&tk, tweak, 8);
            if (c->dir) skinny64_ecb_decrypt(out, blk, &tk.ks); else skinny64_ecb_encrypt(out, blk, &tk.ks); out_digest("S4-skinny64-tweaked-block", out, 8); }
    } else {
        MantisKey_t ks;
        if (mantis_set_key(&ks, buf, 16, (unsigned)c->rounds, c->mode) != 1) return;
        mantis_set_tweak(&ks, buf + 16, 8); mantis_ecb_crypt(out, buf + 24, &ks);
        mantis_swap_modes(&ks); mantis_ecb_crypt_tweaked(out + 8, buf + 24, buf + 16, &ks);
        out_digest("S2-mantis-block", out, 16);
    }
    distinct_add_u64(fnv1a(out, 8, fnv1a(buf, m, 12)));
}

static void sec_blocks(void)
{
    BCtx c; int z; uint8_t vec[80];
    memset(&c, 0, sizeof(c));
    for (c.bs = 8; c.bs <= 16; c.bs += 8) for (z = 1; z <= 3; ++z) for (c.dir = 0; c.dir < 2; ++c.dir) {
        c.kind = 0; c.klen = z * c.bs; lcg_fill(vec, sizeof(vec), 900 + (uint32_t)(c.bs + z));
        fam_iterate((size_t)(c.klen + c.bs), vec, 0, blk_case, &c);
    }
    for (c.bs = 8; c.bs <= 16; c.bs += 8) for (z = 1; z <= 2; ++z) for (c.dir = 0; c.dir < 2; ++c.dir) {
        c.kind = 1; c.klen = z * c.bs; lcg_fill(vec, sizeof(vec), 950 + (uint32_t)(c.bs + z));
        fam_iterate((size_t)(2 * c.bs + c.klen), vec, 0, blk_case, &c);
    }
    for (c.rounds = 5; c.rounds <= 8; ++c.rounds) for (c.mode = 0; c.mode < 2; ++c.mode) {
        c.kind = 2; lcg_fill(vec, sizeof(vec), 980 + (uint32_t)c.rounds);
        fam_iterate(32, vec, 0, blk_case, &c);
    }
}

/* ---- section 5/6: CTR streams with fixed cut patterns, counters with carries, mid-stream re-key ---- */
static const int CUTS[][14] = {
    {401, 0}, {1, 15, 16, 17, 63, 64, 65, 127, 0}, {128, 129, 1, 255, 0}, {7, 9, 8, 8, 24, 40, 56, 64, 72, 0}, {257, 1, 0, 143, 0}, {16, 16, 16, 16, 16, 16, 16, 16, 16, 0}
};
static uint8_t sbuf_in[2048], sbuf_out[2048];

static void sec_ctr(void)
{
    int c, kc, ci, cut, i;
    for (c = 0; c < 3; ++c) {
        int bs = cipher_bs((Cipher)c), be = BE > cipher_max_be((Cipher)c) ? -1 : BE;
        if (be < 0 || (c != CK_S128 && BE > BE_V128)) continue;
        for (kc = 0; kc < 5; ++kc) for (ci = 0; ci < 8; ++ci) for (cut = 0; cut < 6; ++cut) {
            CtrObj o; uint8_t ctr[16]; unsigned clen = (unsigned)bs; size_t pos = 0; int r = 1;
            arena_reset(); memset(&o, 0, sizeof(o));
            if (!ctr_init((Cipher)c, be, &o)) engine_error("ctr init");
            if (ctr_backend((Cipher)c, &o) != be) engine_error("pinning failed");
            if (c == CK_MANTIS) { r &= ctr_set_key((Cipher)c, &o, KEYS[kc & 1], 16, 5 + (unsigned)(kc % 4)); if (kc >= 2) r &= ctr_set_tweak((Cipher)c, &o, KEYS[1] + 9, 8); }
            else if (kc < 3) r &= ctr_set_key((Cipher)c, &o, KEYS[kc & 1], (unsigned)bs * (unsigned)(kc + 1), 0);
            else { r &= ctr_set_tweaked_key((Cipher)c, &o, KEYS[kc & 1], (unsigned)bs * (unsigned)(kc - 2)); r &= ctr_set_tweak((Cipher)c, &o, KEYS[0] + 20, (unsigned)bs - 3); r &= ctr_set_tweak((Cipher)c, &o, KEYS[0] + 11, (unsigned)bs); }
            memset(ctr, 0, 16);
            switch (ci) {
            case 0: clen = 99; break;                                       /* no set_counter at all */
            case 1: break;                                                   /* zero */
            case 2: memset(ctr, 0xFF, 16); break;                            /* wraps */
            case 3: memset(ctr + bs - 3, 0xFF, 3); break;
            case 4: memset(ctr + 1, 0xFF, (size_t)bs - 1); break;
            case 5: memset(ctr, 0xFF, 16); ctr[bs - 1] = 0xF9; break;
            case 6: lcg_fill(ctr, 16, 77); clen = 5; break;                  /* short counter */
            default: clen = 0; break;                                        /* zero-length counter */
            }
            if (clen != 99) r &= ctr_set_counter((Cipher)c, &o, clen ? ctr : NULL, clen);
            for (i = 0; CUTS[cut][i] || (i == 2 && cut == 4); ++i) {
                int n = CUTS[cut][i];
                if (cut == 2 || cut == 5) { memcpy(sbuf_out + pos, sbuf_in + pos, (size_t)n); r &= ctr_encrypt((Cipher)c, &o, sbuf_out + pos, sbuf_out + pos, (size_t)n); }   /* in place */
                else r &= ctr_encrypt((Cipher)c, &o, sbuf_out + pos, sbuf_in + pos, (size_t)n);
                pos += (size_t)n;
                if (cut == 1 && i == 0 && clen != 99 && clen > 0) {      /* a seek inside the batch that is still buffered, then one far away */
                    uint8_t c2[16]; memcpy(c2, ctr, 16); c2[clen - 1] = (uint8_t)(c2[clen - 1] + 3);
                    r &= ctr_set_counter((Cipher)c, &o, c2, clen);
                }
                if (cut == 1 && i == 2 && clen != 99 && clen > 0) { uint8_t c2[16]; memcpy(c2, ctr, 16); c2[0] ^= 0x40; r &= ctr_set_counter((Cipher)c, &o, c2, clen); }
                if (cut == 3 && i == 3) r &= ctr_set_key((Cipher)c, &o, KEYS[1] + 1, c == CK_MANTIS ? 16 : (unsigned)bs, 6);   /* mid-stream re-key */
                if (cut == 2 && i == 1 && (c != CK_MANTIS ? kc >= 3 : 1)) r &= ctr_set_tweak((Cipher)c, &o, KEYS[1] + 5, (unsigned)bs);  /* mid-stream tweak change */
                if (i >= 12) break;
            }
            ctr_cleanup((Cipher)c, &o);
            ++g_cnt.evaluations;
            out_digest(c == 0 ? "S5-skinny128-ctr-stream" : (c == 1 ? "S5-skinny64-ctr-stream" : "S5-mantis-ctr-stream"), sbuf_out, pos);
            out_digest(c == 0 ? "S5-skinny128-ctr-returns" : (c == 1 ? "S5-skinny64-ctr-returns" : "S5-mantis-ctr-returns"), &r, sizeof(r));
            distinct_add_u64(fnv1a(sbuf_out, pos, (uint64_t)(c * 1000 + kc * 100 + ci * 10 + cut)));
        }
    }
}

/* ---- section 7: parallel ECB, every block count ---- */
static void sec_par(void)
{
    int c, kc, n, dir;
    for (c = 0; c < 3; ++c) {
        int bs = cipher_bs((Cipher)c);
        if (BE > cipher_max_be((Cipher)c) || (c != CK_S128 && BE > BE_V128)) continue;
        for (kc = 0; kc < 4; ++kc) for (n = 0; n <= 25; ++n) for (dir = 0; dir < 2; ++dir) {
            ParObj o; int r;
            arena_reset(); memset(&o, 0, sizeof(o));
            if (!par_init((Cipher)c, BE, &o)) engine_error("par init");
            r = par_set_key((Cipher)c, &o, KEYS[kc & 1], c == CK_MANTIS ? 16 : (unsigned)bs * (unsigned)(1 + kc % 3) + (kc == 3 ? 5u : 0u), 5 + (unsigned)kc, dir);
            {   /* per-block tweaks (Mantis): random bytes, all zero, big-endian block number, one late non-zero tweak per group */
                static uint8_t twa[26 * 8 + 8]; int i2;
                memcpy(twa, sbuf_in + 700, sizeof(twa));
                if (n % 4 == 1) memset(twa, 0, sizeof(twa));
                else if (n % 4 == 2) { memset(twa, 0, sizeof(twa)); for (i2 = 0; i2 <= 25; ++i2) twa[i2 * 8 + 7] = (uint8_t)i2; }
                else if (n % 4 == 3) { memset(twa, 0, sizeof(twa)); for (i2 = 0; i2 <= 25; ++i2) if (i2 % 8 == 5 || i2 == n - 1) twa[i2 * 8 + 7] = (uint8_t)(1 + i2 / 8); }
                /* the output (and for odd counts the input) sits at an odd offset: results may not depend on placement in any configuration */
                r &= par_crypt((Cipher)c, &o, sbuf_out + 3, sbuf_in + ((n & 1) ? 5 : 0), twa, (size_t)(n * bs), dir);
                memmove(sbuf_out, sbuf_out + 3, (size_t)(n * bs));
            }
            par_cleanup((Cipher)c, &o);
            ++g_cnt.evaluations;
            out_digest(c == 0 ? "S7-skinny128-parallel" : (c == 1 ? "S7-skinny64-parallel" : "S7-mantis-parallel"), sbuf_out, (size_t)(n * bs));
            out_digest(c == 0 ? "S7-skinny128-parallel-returns" : (c == 1 ? "S7-skinny64-parallel-returns" : "S7-mantis-parallel-returns"), &r, sizeof(r));
        }
    }
}

/* ---- section 3: special argument forms and re-use sequences of every setter ---- */
static void sec_special(void)
{
    int kc, r, c;
    uint8_t out[64], blk[16];
    lcg_fill(blk, 16, 77);
    for (kc = 0; kc < 2; ++kc) {
        for (r = 5; r <= 8; ++r) {
            MantisKey_t m; int rv = 1;
            memset(&m, 0, sizeof(m));
            rv &= mantis_set_key(&m, KEYS[kc], 16, (unsigned)r, MANTIS_ENCRYPT); rv &= mantis_set_tweak(&m, KEYS[1] + 3, 8); mantis_ecb_crypt(out, blk, &m);
            rv &= mantis_set_tweak(&m, NULL, 8); mantis_ecb_crypt(out + 8, blk, &m);                      /* NULL after a non-zero tweak */
            mantis_swap_modes(&m); rv &= mantis_set_tweak(&m, KEYS[0] + 9, 8); mantis_ecb_crypt(out + 16, out, &m);
            rv &= mantis_set_key(&m, KEYS[!kc], 16, (unsigned)r, MANTIS_DECRYPT); mantis_ecb_crypt(out + 24, blk, &m);    /* re-key: tweak back to zero */
            mantis_ecb_crypt_tweaked(out + 32, blk, KEYS[0] + 30, &m);
            rv += 2 * mantis_set_tweak(&m, KEYS[0], 7) + 4 * mantis_set_key(&m, KEYS[0], 16, 9, MANTIS_ENCRYPT);          /* rejected: unchanged */
            mantis_ecb_crypt(out + 40, blk, &m);
            out_digest("S3-mantis-special-forms", out, 48); out_digest("S3-mantis-special-returns", &rv, sizeof(rv));
            ++g_cnt.evaluations;
        }
        {
            Skinny128TweakedKey_t t; Skinny64TweakedKey_t u; int rv = 1, z;
            for (z = 1; z <= 2; ++z) {
                memset(&t, 0, sizeof(t)); memset(&u, 0, sizeof(u));
                rv &= skinny128_set_tweaked_key(&t, KEYS[kc], 16u * (unsigned)z); rv &= skinny128_set_tweak(&t, KEYS[1] + 1, 16); skinny128_ecb_encrypt(out, blk, &t.ks);
                rv &= skinny128_set_tweak(&t, NULL, 16); skinny128_ecb_encrypt(out + 16, blk, &t.ks);
                rv &= skinny128_set_tweak(&t, KEYS[1] + 2, 3); rv &= skinny128_set_tweak(&t, NULL, 1); rv &= skinny128_set_tweak(&t, KEYS[0] + 5, 9); skinny128_ecb_decrypt(out + 32, blk, &t.ks);
                rv += 2 * skinny128_set_tweak(&t, KEYS[0], 17) + 4 * skinny128_set_tweaked_key(&t, KEYS[0], 33);
                skinny128_ecb_encrypt(out + 48, blk, &t.ks);
                out_digest("S3-skinny128-tweak-special-forms", out, 64);
                /* three changes in a row: a full-length tweak, a short one, another one (the stored copy of the second must be zero padded) */
                rv &= skinny128_set_tweak(&t, KEYS[0] + 3, 16); rv &= skinny128_set_tweak(&t, KEYS[1] + 7, 4); rv &= skinny128_set_tweak(&t, KEYS[0] + 9, 11); skinny128_ecb_encrypt(out, blk, &t.ks);
                rv &= skinny128_set_tweak(&t, KEYS[1] + 5, 16); rv &= skinny128_set_tweak(&t, KEYS[1] + 5, 6); rv &= skinny128_set_tweak(&t, NULL, 16); skinny128_ecb_decrypt(out + 16, blk, &t.ks);
                out_digest("S3-skinny128-tweak-three-changes", out, 32);
                rv &= skinny64_set_tweaked_key(&u, KEYS[kc], 8u * (unsigned)z); rv &= skinny64_set_tweak(&u, KEYS[1] + 1, 8); skinny64_ecb_encrypt(out, blk, &u.ks);
                rv &= skinny64_set_tweak(&u, NULL, 8); skinny64_ecb_encrypt(out + 8, blk, &u.ks);
                rv &= skinny64_set_tweak(&u, KEYS[1] + 2, 3); rv &= skinny64_set_tweak(&u, NULL, 1); rv &= skinny64_set_tweak(&u, KEYS[0] + 5, 5); skinny64_ecb_decrypt(out + 16, blk, &u.ks);
                rv += 2 * skinny64_set_tweak(&u, KEYS[0], 9) + 4 * skinny64_set_tweaked_key(&u, KEYS[0], 17);
                skinny64_ecb_encrypt(out + 24, blk, &u.ks);
                out_digest("S3-skinny64-tweak-special-forms", out, 32); out_digest("S3-skinny-tweak-special-returns", &rv, sizeof(rv));
                ++g_cnt.evaluations;
            }
        }
    }
    /* CTR objects: NULL tweak / NULL counter after non-zero ones, rejected calls in the middle of a stream */
    for (c = 0; c < 3; ++c) {
        int bs = cipher_bs((Cipher)c);
        if (BE > cipher_max_be((Cipher)c) || (c != CK_S128 && BE > BE_V128)) continue;
        for (kc = 0; kc < 2; ++kc) {
            CtrObj o; int rv = 1; size_t pos = 0;
            arena_reset(); memset(&o, 0, sizeof(o));
            if (!ctr_init((Cipher)c, BE, &o)) engine_error("ctr init");
            if (c == CK_MANTIS) rv &= ctr_set_key((Cipher)c, &o, KEYS[kc], 16, 7); else rv &= ctr_set_tweaked_key((Cipher)c, &o, KEYS[kc], (unsigned)bs * 2);
            rv &= ctr_set_tweak((Cipher)c, &o, KEYS[1] + 4, (unsigned)bs); rv &= ctr_set_counter((Cipher)c, &o, KEYS[1] + 20, (unsigned)bs);
            rv &= ctr_encrypt((Cipher)c, &o, sbuf_out + pos, sbuf_in + pos, 37); pos += 37;
            rv &= ctr_set_tweak((Cipher)c, &o, NULL, (unsigned)bs); rv &= ctr_set_counter((Cipher)c, &o, NULL, (unsigned)bs - 1);
            rv &= ctr_encrypt((Cipher)c, &o, sbuf_out + pos, sbuf_in + pos, 150); pos += 150;
            rv += 2 * ctr_set_counter((Cipher)c, &o, KEYS[0], (unsigned)bs + 1) + 4 * ctr_set_tweak((Cipher)c, &o, KEYS[0], c == CK_MANTIS ? 7u : 0u) + 8 * ctr_encrypt((Cipher)c, &o, NULL, sbuf_in, 1);
            rv &= ctr_encrypt((Cipher)c, &o, sbuf_out + pos, sbuf_in + pos, 21); pos += 21;
            /* the value the object already has, set again in the middle of a block: the tweak, then the key */
            rv &= ctr_encrypt((Cipher)c, &o, sbuf_out + pos, sbuf_in + pos, 3); pos += 3;       /* 174 bytes since the last set_counter: inside a block of either size */
            rv &= ctr_set_tweak((Cipher)c, &o, NULL, (unsigned)bs);
            rv &= ctr_encrypt((Cipher)c, &o, sbuf_out + pos, sbuf_in + pos, 11); pos += 11;
            if (c == CK_MANTIS) rv &= ctr_set_key((Cipher)c, &o, KEYS[kc], 16, 7); else rv &= ctr_set_tweaked_key((Cipher)c, &o, KEYS[kc], (unsigned)bs * 2);
            rv &= ctr_encrypt((Cipher)c, &o, sbuf_out + pos, sbuf_in + pos, 9); pos += 9;
            ctr_cleanup((Cipher)c, &o);
            rv += 16 * ctr_encrypt((Cipher)c, &o, sbuf_out + pos, sbuf_in + pos, 5);
            out_digest(c == 0 ? "S3-skinny128-ctr-special-forms" : (c == 1 ? "S3-skinny64-ctr-special-forms" : "S3-mantis-ctr-special-forms"), sbuf_out, pos);
            out_digest(c == 0 ? "S3-skinny128-ctr-special-returns" : (c == 1 ? "S3-skinny64-ctr-special-returns" : "S3-mantis-ctr-special-returns"), &rv, sizeof(rv));
            ++g_cnt.evaluations;
        }
    }
    /* Mantis parallel object: swap_modes, re-key */
    if (BE <= cipher_max_be(CK_MANTIS) && BE <= BE_V128) {
        ParObj o; int rv = 1;
        arena_reset(); memset(&o, 0, sizeof(o));
        if (!par_init(CK_MANTIS, BE, &o)) engine_error("par init");
        rv &= par_set_key(CK_MANTIS, &o, KEYS[0], 16, 6, MANTIS_ENCRYPT); rv &= par_crypt(CK_MANTIS, &o, sbuf_out, sbuf_in, sbuf_in + 512, 8 * 11, 0);
        par_swap_modes(&o); rv &= par_crypt(CK_MANTIS, &o, sbuf_out + 88, sbuf_out, sbuf_in + 512, 8 * 11, 0);
        rv &= par_set_key(CK_MANTIS, &o, KEYS[1], 16, 8, MANTIS_DECRYPT); rv &= par_crypt(CK_MANTIS, &o, sbuf_out + 176, sbuf_in, sbuf_in + 600, 8 * 9, 0);
        rv += 2 * par_set_key(CK_MANTIS, &o, KEYS[1], 17, 8, MANTIS_DECRYPT) + 4 * par_crypt(CK_MANTIS, &o, sbuf_out, sbuf_in, sbuf_in, 9, 0);
        par_cleanup(CK_MANTIS, &o);
        out_digest("S3-mantis-parallel-special-forms", sbuf_out, 248); out_digest("S3-mantis-parallel-special-returns", &rv, sizeof(rv));
        ++g_cnt.evaluations;
    }
}

/* ---- section 10: in-between key lengths ---- */
static void sec_keylen(void)
{
    unsigned len; uint8_t out[16], blk[16];
    lcg_fill(blk, 16, 31);
    for (len = 0; len <= 50; ++len) {
        Skinny128Key_t k128; Skinny64Key_t k64; Skinny128TweakedKey_t t128; Skinny64TweakedKey_t t64; int r;
        memset(&k128, 0, sizeof(k128)); memset(&k64, 0, sizeof(k64)); memset(&t128, 0, sizeof(t128)); memset(&t64, 0, sizeof(t64));
        r = skinny128_set_key(&k128, KEYS[0], len); out_digest("S10-returns", &r, sizeof(r)); if (r) { skinny128_ecb_encrypt(out, blk, &k128); out_digest("S10-skinny128-keylen", out, 16); }
        r = skinny64_set_key(&k64, KEYS[0], len); out_digest("S10-returns", &r, sizeof(r)); if (r) { skinny64_ecb_encrypt(out, blk, &k64); out_digest("S10-skinny64-keylen", out, 8); }
        r = skinny128_set_tweaked_key(&t128, KEYS[1], len); out_digest("S10-returns", &r, sizeof(r)); if (r) { skinny128_ecb_decrypt(out, blk, &t128.ks); out_digest("S10-skinny128-tweaked-keylen", out, 16); }
        r = skinny64_set_tweaked_key(&t64, KEYS[1], len); out_digest("S10-returns", &r, sizeof(r)); if (r) { skinny64_ecb_decrypt(out, blk, &t64.ks); out_digest("S10-skinny64-tweaked-keylen", out, 8); }
        ++g_cnt.evaluations;
    }
}

int main(int argc, char **argv)
{
    int i;
    parse_opts(argc, argv);
    if (!g_opts.sub || sscanf(g_opts.sub, "be%d", &BE) != 1) engine_error("--sub be<N> required");
    if (BE > max_backend()) engine_error("back end %d not available in this build/host", BE);
    lcg_fill(KEYS[0], 48, 4242); for (i = 0; i < 48; ++i) KEYS[1][i] = (uint8_t)(0xFF - 5 * i);
    lcg_fill(sbuf_in, sizeof(sbuf_in), 2024);
    g_opts.nshards = 1; g_opts.shard = 0;
    sec_blocks(); sec_special(); sec_ctr(); sec_par(); sec_keylen();
    sample_add("battery on back end %s: block families, CTR streams (5 key configs x 8 counters x 6 cut patterns incl. mid-stream re-key), parallel counts 0..25, key lengths 0..50", be_name(BE));
    return finish();
}
