/*
 * apimc worlds for the CTR objects: C05 (stream model), C06 (back ends in lock
 * step, CTR part) and C14 (invalid calls, CTR part).  One object per available
 * back end is driven in lock step through every explored history.
 */
#include "common.h"
#include "alloc.h"
#include "obj.h"
#include "mc.h"
#include <string.h>
#include <stdlib.h>

enum { MODE_C05, MODE_C06, MODE_C14 };
enum { T_INIT, T_KEY, T_TKEY, T_TWEAK, T_CTR, T_ENC, T_CLEANUP, T_BAD };
enum { PH_UNINIT, PH_LIVE, PH_CLEANED };

typedef struct { int type, a, b; } Op;

/* invalid-call classes (T_BAD.a) */
enum { BAD_NULL_OBJ_KEY, BAD_NULL_OBJ_TKEY, BAD_NULL_OBJ_TWEAK, BAD_NULL_OBJ_CTR, BAD_NULL_OBJ_ENC,
       BAD_NULL_KEY, BAD_NULL_TKEY, BAD_KEY_SHORT, BAD_KEY_LONG, BAD_TKEY_SHORT, BAD_TKEY_LONG,
       BAD_TWEAK_LEN0, BAD_TWEAK_LONG, BAD_CTR_LONG, BAD_ENC_NULL_OUT, BAD_ENC_NULL_IN,
       BAD_ENC_NULL_BOTH, BAD_ENC_NULL_OUT0, BAD_ENC_NULL_IN0, BAD_MANTIS_ROUNDS4, BAD_MANTIS_ROUNDS9,
       BAD_MANTIS_KEY15, BAD_MANTIS_KEY17, BAD_MANTIS_TWEAK7, BAD_MANTIS_TWEAK9,
       BAD_TWEAK_NULL_LEN0, BAD_TWEAK_NULL_LONG, BAD_CTR_NULL_LONG, BAD_MANTIS_TWEAK_NULL7, BAD_MANTIS_TWEAK_NULL9,
       BAD_MANTIS_ROUNDS37, BAD_MANTIS_ROUNDS_HIGH,
       BAD_CTR_256, BAD_CTR_256B, BAD_CTR_65536B, BAD_TWEAK_256B, BAD_TWEAK_65536B, BAD_CTR_NULL_256B, BAD_NCLASSES };
static const char *BADNAME[BAD_NCLASSES] = {
    "set_key(NULL object)", "set_tweaked_key(NULL object)", "set_tweak(NULL object)", "set_counter(NULL object)",
    "encrypt(NULL object)", "set_key(NULL key)", "set_tweaked_key(NULL key)", "set_key(len below range)",
    "set_key(len above range)", "set_tweaked_key(len below range)", "set_tweaked_key(len above range)",
    "set_tweak(len 0)", "set_tweak(len block+1)", "set_counter(len block+1)", "encrypt(NULL output, 1 byte)",
    "encrypt(NULL input, 1 byte)", "encrypt(NULL output and input, 1 byte)", "encrypt(NULL output, 0 bytes)",
    "encrypt(NULL input, 0 bytes)", "set_key(rounds 4)", "set_key(rounds 9)", "set_key(15-byte key)",
    "set_key(17-byte key)", "set_tweak(len 7)", "set_tweak(len 9)",
    "set_tweak(NULL, len 0)", "set_tweak(NULL, len block+1)", "set_counter(NULL, len block+1)", "set_tweak(NULL, len 7)", "set_tweak(NULL, len 9)",
    "set_key(rounds 37)", "set_key(rounds 2^31+6)",
    /* lengths that equal a legal one modulo 2^8 / 2^16 */
    "set_counter(len 256)", "set_counter(len 256+block)", "set_counter(len 65536+block)", "set_tweak(len 256+block)", "set_tweak(len 65536+block)", "set_counter(NULL, len 256+block)" };

/* ---------------- configuration ---------------- */
static int g_mode;
static Cipher g_c;
static int g_bs, g_nbe, g_be[3], g_maxbatch;
static int g_only_key = -1;       /* restrict key ops to this index (sharding) */
static Op g_ops[400]; static int g_nops;
static int g_keyop_first, g_nkeyops, g_first_tkey = -1;

#define NKEYS 2
static uint8_t KEYS[NKEYS + 1][48];     /* KEYS[NKEYS]: the first block of KEYS[0] followed by zeros (a longer key that equals a shorter one after zero padding) */
static uint8_t TWEAKS[40][16]; static int TWLEN[40]; static int TWNULL[40]; static int g_ntweaks;
static uint8_t CTRS[64][16]; static int CTLEN[64]; static int CTNULL[64]; static int g_nctrs;
static int LENS[256]; static int g_nlens;
static int g_bound1, g_bound2;

/* ---------------- world ---------------- */
static struct {
    CtrObj obj[3];
    int phase, keyed, klen, rounds;
    uint8_t key[48], tweak[16], counter[16];
    int ksoff, defined;
    int nkey, ntweak, nctr, seg2, consumed, nreconf, nafter, exotic, keyidx, unkeyed_enc, postclean, nenc;
    int followup;      /* 1: a long request just ended the explored part of the stream, one short request may follow it; 2: it did */
    /* --- fields below are not part of the canonical state --- */
    uint64_t pos;      /* absolute stream position for the input pattern */
    uint8_t ks[16]; int ksvalid;   /* lazily computed keystream of the current block */
} W;

static uint8_t inbuf[66000], outbuf[3][66000], expbuf[66000];

static void add_op(int t, int a, int b) { g_ops[g_nops].type = t; g_ops[g_nops].a = a; g_ops[g_nops].b = b; ++g_nops; }
static void add_len(int l) { int i; if (l < 0) return; for (i = 0; i < g_nlens; ++i) if (LENS[i] == l) return; LENS[g_nlens++] = l; }

static void build_alphabet(void)
{
    int i, k, B = g_bs, thorough = tier_thorough();
    static const uint8_t suite128[16] = {0x01,0x23,0x45,0x67,0x89,0xab,0xcd,0xef,0x01,0x23,0x45,0x67,0x89,0xab,0xcd,0xef};
    lcg_fill(KEYS[0], 48, 4242 + (uint32_t)g_opts.seed);
    for (i = 0; i < 48; ++i) KEYS[1][i] = (uint8_t)(0xFF - 5 * i);
    memset(KEYS[NKEYS], 0, 48); memcpy(KEYS[NKEYS], KEYS[0], (size_t)g_bs);

    /* TWEAKS(B): Z, F, R1 at full length; R1 at every length 1..B-1; null at lengths 1 and B */
    g_ntweaks = 0;
    memset(TWEAKS[g_ntweaks], 0, 16); TWLEN[g_ntweaks] = B; TWNULL[g_ntweaks++] = 0;
    memset(TWEAKS[g_ntweaks], 0xFF, 16); TWLEN[g_ntweaks] = B; TWNULL[g_ntweaks++] = 0;
    lcg_fill(TWEAKS[g_ntweaks], 16, 99); TWLEN[g_ntweaks] = B; TWNULL[g_ntweaks++] = 0;
    if (g_c != CK_MANTIS)
        for (k = 1; k < B; ++k) {
            if (!thorough && !(k == 1 || k == 3 || k == 4 || k == 5 || k == B - 1 || k == B / 2)) continue;
            lcg_fill(TWEAKS[g_ntweaks], 16, (k & 1) ? 99 : 200 + (uint32_t)k); TWLEN[g_ntweaks] = k; TWNULL[g_ntweaks++] = 0;   /* (odd lengths: prefixes of the full-length tweak above) */
        }
    memset(TWEAKS[g_ntweaks], 0, 16); TWLEN[g_ntweaks] = B; TWNULL[g_ntweaks++] = 1;
    if (g_c != CK_MANTIS) { memset(TWEAKS[g_ntweaks], 0, 16); TWLEN[g_ntweaks] = 1; TWNULL[g_ntweaks++] = 1; }

    /* CTRS(B) */
    g_nctrs = 0;
    memset(CTRS[g_nctrs], 0, 16); CTLEN[g_nctrs] = B; CTNULL[g_nctrs++] = 0;                 /* Z */
    memset(CTRS[g_nctrs], 0xFF, 16); CTLEN[g_nctrs] = B; CTNULL[g_nctrs++] = 0;              /* F: wraps */
    memcpy(CTRS[g_nctrs], suite128, 16); CTLEN[g_nctrs] = B; CTNULL[g_nctrs++] = 0;          /* suite */
    for (k = 1; k < B; ++k) {                                                                /* 00..00 FF^k */
        memset(CTRS[g_nctrs], 0, 16); memset(CTRS[g_nctrs] + B - k, 0xFF, (size_t)k);
        CTLEN[g_nctrs] = B; CTNULL[g_nctrs++] = 0;
    }
    memset(CTRS[g_nctrs], 0xFF, 16); CTRS[g_nctrs][B - 1] = 0xFE; CTLEN[g_nctrs] = B; CTNULL[g_nctrs++] = 0;
    memset(CTRS[g_nctrs], 0xFF, 16); CTRS[g_nctrs][B - 1] = 0xF0; CTLEN[g_nctrs] = B; CTNULL[g_nctrs++] = 0;
    for (k = 0; k < B; ++k) {                                                                /* short counters */
        if (!thorough && !(k == 0 || k == 1 || k == 2 || k == B - 1 || k == B / 2 || k == 5)) continue;
        memset(CTRS[g_nctrs], 0xFF, 16); CTRS[g_nctrs][k ? k - 1 : 0] = 0xFD;
        CTLEN[g_nctrs] = k; CTNULL[g_nctrs++] = 0;
    }
    memset(CTRS[g_nctrs], 0x11, 16); CTLEN[g_nctrs] = 0; CTNULL[g_nctrs++] = 1;             /* null, sizes 0,1,B */
    memset(CTRS[g_nctrs], 0x11, 16); CTLEN[g_nctrs] = 1; CTNULL[g_nctrs++] = 1;
    memset(CTRS[g_nctrs], 0x11, 16); CTLEN[g_nctrs] = B; CTNULL[g_nctrs++] = 1;

    /* LENS */
    g_nlens = 0;
    if (thorough && g_mode == MODE_C05) {
        for (i = 0; i <= g_maxbatch + B + 1; ++i) add_len(i);
    } else {
        add_len(0); add_len(1); add_len(2); add_len(B - 1); add_len(B); add_len(B + 1);
        for (i = 0; i < g_nbe; ++i) {
            int bt = ctr_batch(g_c, g_be[i]);
            add_len(bt - 1); add_len(bt); add_len(bt + 1);
            add_len(2 * bt - 1); add_len(2 * bt); add_len(2 * bt + 1);
        }
    }
    add_len(3 * g_maxbatch + B + 1);
    if (g_mode == MODE_C05) { add_len(1031); add_len(4096 + B + 1); if (thorough) add_len(65536 + B + 1); }    /* long single calls: many batch iterations in one request (thorough: across 2^16 bytes) */
    g_bound1 = 2 * g_maxbatch + B + 1;
    g_bound2 = g_maxbatch + B + 1;

    /* operations, simplest first */
    g_nops = 0;
    add_op(T_INIT, 0, 0);
    g_keyop_first = g_nops;
    if (g_c == CK_MANTIS) {
        for (k = 0; k < NKEYS; ++k) { add_op(T_KEY, k, 5); add_op(T_KEY, k, 8); if (thorough) { add_op(T_KEY, k, 6); add_op(T_KEY, k, 7); } }
    } else {
        for (k = 0; k < NKEYS; ++k) for (i = 1; i <= 3; ++i) add_op(T_KEY, k, i * B);
        add_op(T_KEY, NKEYS, 2 * B); add_op(T_KEY, NKEYS, 3 * B);      /* K0's first block followed by zeros, at the longer sizes */
        add_op(T_KEY, 1, 2 * B + B / 2 + 1);                           /* a legal length between the primary sizes, odd (round 16: the CTR layer may stage the key itself) */
        g_first_tkey = g_nops;
        add_op(T_TKEY, 0, B); add_op(T_TKEY, 0, 2 * B); add_op(T_TKEY, 1, B + B / 2 + 1);
        add_op(T_TKEY, 1, B); add_op(T_TKEY, 1, 2 * B);
    }
    g_nkeyops = g_nops - g_keyop_first;
    for (i = 0; i < g_nctrs; ++i) add_op(T_CTR, i, 0);
    for (i = 0; i < g_ntweaks; ++i) add_op(T_TWEAK, i, 0);
    for (i = 0; i < g_nlens; ++i) { add_op(T_ENC, LENS[i], 0); add_op(T_ENC, LENS[i], 1); }
    if (g_mode != MODE_C05) add_op(T_CLEANUP, 0, 0);
    if (g_mode != MODE_C05)
        for (i = 0; i < BAD_NCLASSES; ++i) {
            int mantis_only = (i >= BAD_MANTIS_ROUNDS4 && i <= BAD_MANTIS_TWEAK9) || i == BAD_MANTIS_TWEAK_NULL7 || i == BAD_MANTIS_TWEAK_NULL9 || i == BAD_MANTIS_ROUNDS37 || i == BAD_MANTIS_ROUNDS_HIGH;
            int skinny_only = (i == BAD_NULL_OBJ_TKEY || i == BAD_NULL_TKEY || i == BAD_KEY_SHORT || i == BAD_KEY_LONG ||
                               i == BAD_TKEY_SHORT || i == BAD_TKEY_LONG || i == BAD_TWEAK_LEN0 || i == BAD_TWEAK_LONG ||
                               i == BAD_TWEAK_NULL_LEN0 || i == BAD_TWEAK_NULL_LONG);
            if (mantis_only && g_c != CK_MANTIS) continue;
            if (skinny_only && g_c == CK_MANTIS) continue;
            add_op(T_BAD, i, 0);
        }
    if (g_nops > (int)(sizeof(g_ops) / sizeof(g_ops[0]))) engine_error("alphabet too large");
}

static void w_reset(void)
{
    arena_reset();
    memset(&W, 0, sizeof(W));
    /* caller's handles start zeroed (documented precondition for cleanup-before-init) */
    W.ksoff = g_bs;
    W.keyidx = -1;
}

/* "simple" key configurations carry the exotic counters / tweaks (cuts the cross product) */
static int is_simple_key(int opidx)
{
    return opidx == g_keyop_first || opidx == g_first_tkey;
}

/* stream bound for the current start configuration */
static int cur_bound(void)
{
    if (W.nkey > 1) return g_bs + 2;            /* re-keyed before data: which key is in force shows in the first blocks */
    if (W.ntweak > 0 && g_c != CK_MANTIS) return g_bs + 2;
    if (W.ntweak > 1) return g_bs + 2;
    if (W.seg2 || W.exotic) return g_bound2;
    return g_bound1;
}

static int w_enabled(int opi)
{
    const Op *o = &g_ops[opi];
    int live = W.phase == PH_LIVE;
    switch (o->type) {
    case T_INIT:
        return W.phase == PH_UNINIT;
    case T_KEY: case T_TKEY:
        if (!live) return 0;
        if (W.nkey == 0) { if (g_only_key >= 0 && opi != g_keyop_first + g_only_key) return 0; }
        else {
            /* a second key operation may be of another kind or size: the same one, the first plain key, the first
             * tweaked key, or the last (longest) key operation of the alphabet */
            if (!(opi == g_keyop_first + g_only_key || opi == g_keyop_first || opi == g_first_tkey || opi == g_keyop_first + g_nkeyops - 1)) return 0;
        }
        if (W.exotic && !is_simple_key(opi)) return 0;
        if (W.consumed == 0 && W.nkey == 0 && !W.seg2) return 1;
        /* re-key before any data, also straight after a tweak change (which the new key must supersede) */
        if (g_mode == MODE_C05 && W.consumed == 0 && W.nkey == 1 && W.nctr == 0 && W.ntweak <= 1 && !W.seg2 && !W.exotic) return 1;
        if (g_mode == MODE_C06 && W.consumed == 0 && W.unkeyed_enc == 0 && W.nkey == 1 && W.nctr == 0 && W.ntweak == 1 && !W.seg2 && !W.exotic) return 1;
        if (g_mode == MODE_C06 && W.consumed > 0 && W.nreconf < 1 && !W.seg2) return 1;
        if (g_mode == MODE_C14 && W.nkey < 2 && W.consumed == 0) return 1;
        return 0;
    case T_TWEAK: {
        int exotic = o->a >= 3;
        if (!live) return 0;
        if (exotic && g_mode == MODE_C06 && !TWNULL[o->a]) return 0;
        if (g_c == CK_MANTIS) { if (!W.keyed) return 0; }
        else if (W.keyed != 2 && !(g_mode == MODE_C06 && W.keyed == 1 && o->a < 3)) return 0;
        if (exotic && (W.exotic || (W.keyidx >= 0 && !is_simple_key(W.keyidx)))) return 0;
        if (g_mode == MODE_C06 && W.consumed == 0 && W.unkeyed_enc == 0) return W.ntweak < 1 && o->a == 2;
        if (W.consumed == 0 && W.ntweak < 1 && !W.seg2) return 1;
        if (W.consumed == 0 && W.ntweak < 2 && !W.seg2 && !W.exotic && !exotic) return 1;
        if (g_mode == MODE_C06 && W.consumed > 0 && W.nreconf < 1 && o->a < 3 && !W.seg2) return 1;
        return 0; }
    case T_CTR: {
        /* FF..FE: the lane counters of the first batch wrap, so that winding them back (a key or tweak change inside the batch) borrows */
        int is_fe = CTLEN[o->a] == g_bs && !CTNULL[o->a] && CTRS[o->a][g_bs - 1] == 0xFE && CTRS[o->a][0] == 0xFF;
        int exotic = o->a >= 3 && !(g_mode == MODE_C06 && is_fe);
        if (!live) return 0;
        if (exotic && g_mode != MODE_C05 && !(g_mode == MODE_C14 && CTNULL[o->a])) return 0;   /* (C14: the NULL forms are valid calls and must return 1) */
        if (g_mode == MODE_C06 && o->a > 1 && !is_fe) return 0;
        if (exotic && (W.ntweak > 0 || (W.keyidx >= 0 && !is_simple_key(W.keyidx)))) return 0;
        if (W.consumed == 0 && W.nctr == 0) return 1;
        {   /* a later set_counter (after data, or straight after a first one): the plain counters, the NULL forms
             * (which must give the all-zero block whatever the object's counter holds by then) and one short one */
            int later_ok = o->a < 3 || CTNULL[o->a] || (CTLEN[o->a] == 2 && !CTNULL[o->a]);
            if (W.consumed > 0 && !W.seg2 && !W.nreconf && later_ok && !W.exotic && g_mode == MODE_C05) return 1;
            if (W.consumed == 0 && W.nctr == 1 && !W.seg2 && !W.nreconf && later_ok && o->a >= 3 && !W.exotic && W.ntweak == 0 && g_mode == MODE_C05) return 1;
        }
        return 0; }
    case T_ENC:
        /* data calls on a cleaned-up object (one byte, then also an empty request) must return 0 and touch nothing */
        if ((g_mode == MODE_C06 || g_mode == MODE_C14) && W.phase == PH_CLEANED) return W.postclean < 2 && (o->a == 1 || o->a == 0) && o->b == 0;
        if (!live) return 0;
        if (!W.keyed) return g_mode == MODE_C06 && W.unkeyed_enc < 1 && (o->a == 1 || o->a == g_bs + 1) && o->b == 0;
        if (g_mode == MODE_C14) return W.consumed < g_bs + 2 && (o->a == 1 || o->a == g_bs) && o->b == 0;
        if (W.nreconf) return W.nafter < (tier_thorough() ? 2 : 1) && (o->a == 1 || o->a == g_bs || o->a == g_maxbatch + 1) && o->b == 0;
        if (g_mode == MODE_C06) return (W.nenc < 1 || (W.nenc < 2 && W.consumed <= g_bs + 1)) && o->b == 0;   /* the defined regime itself is C05's business */
        if (cur_bound() == g_bs + 2 && !(o->a == 1 || o->a == g_bs || o->a == g_bs + 1)) return 0;
        /* after a long single request (several batches, ending inside one): one short request more, which has to pick up
         * exactly the keystream the long one left behind */
        if (W.consumed >= cur_bound()) return g_mode == MODE_C05 && W.followup == 1 && (o->a == 1 || o->a == g_bs + 1 || o->a == g_maxbatch - 1) && o->b == 0;
        if (W.consumed >= g_bs + 2 && W.consumed + o->a > cur_bound() + g_maxbatch) return 0;   /* long pieces only from early states */
        return 1;
    case T_CLEANUP:
        if (g_mode == MODE_C05) return 0;
        return W.phase != PH_UNINIT ? (W.phase == PH_LIVE ? (W.consumed < g_bs + 2) : W.postclean < 1) : 1;
    case T_BAD:
        return g_mode != MODE_C05 && (g_mode == MODE_C14 || W.consumed < g_bs + 2) && !W.nreconf;
    }
    return 0;
}

/* keystream block of the model for the current counter, with a small cache */
static void model_block(uint8_t *ks)
{
    static struct { uint64_t h; uint8_t ks[16]; } cache[8192];
    uint64_t h = fnv1a(W.key, 48, FNV_INIT);
    size_t slot;
    h = fnv1a(W.tweak, 16, h); h = fnv1a(W.counter, 16, h);
    h = fnv1a(&W.keyed, sizeof(int), h); h = fnv1a(&W.klen, sizeof(int), h); h = fnv1a(&W.rounds, sizeof(int), h);
    { int cipher = (int)g_c; h = fnv1a(&cipher, sizeof(int), h); }   /* one process may explore worlds of several ciphers */
    if (!h) h = 1;
    slot = (size_t)(h >> 7) & 8191;
    if (cache[slot].h == h) { memcpy(ks, cache[slot].ks, 16); return; }
    if (g_c == CK_MANTIS) ref_mantis_encrypt(W.key, W.tweak, W.rounds, W.counter, ks);
    else if (W.keyed == 1) ref_skinny_key_encrypt(g_bs, W.key, W.klen, W.counter, ks);
    else ref_skinny_tweak_encrypt(g_bs, W.key, W.klen, W.tweak, W.counter, ks);
    cache[slot].h = h; memcpy(cache[slot].ks, ks, 16);
}

static void ctr_sub1(uint8_t *c)
{
    int j;
    for (j = g_bs - 1; j >= 0; --j) if (c[j]-- != 0) break;
}

/* Advances the model over len bytes.  want != 0: also produce the expected output.
 * W.counter is the counter of the next block to open; the block currently being
 * consumed (ksoff < bs) was generated from counter - 1. */
static void model_stream(const uint8_t *in, uint8_t *out, int len, int want)
{
    int i;
    for (i = 0; i < len; ++i) {
        if (W.ksoff >= g_bs) {
            if (want) { model_block(W.ks); W.ksvalid = 1; } else W.ksvalid = 0;
            ref_ctr_add(W.counter, g_bs, 1);
            W.ksoff = 0;
        } else if (want && !W.ksvalid) {
            uint8_t save[16];
            memcpy(save, W.counter, 16);
            ctr_sub1(W.counter);
            model_block(W.ks);
            memcpy(W.counter, save, 16);
            W.ksvalid = 1;
        }
        if (want) out[i] = in[i] ^ W.ks[W.ksoff];
        ++W.ksoff;
    }
}

static void fill_input(uint8_t *buf, int len, int variant)
{
    int i;
    for (i = 0; i < len; ++i) {
        uint64_t p = W.pos + (uint64_t)i;
        buf[i] = (uint8_t)((p * 131 + (p >> 8) * 17 + (variant ? 0x5A : 0x03)) ^ (variant ? (p >> 3) : 0));
    }
}

static void opname(int opi, char *buf, size_t n)
{
    const Op *o = &g_ops[opi];
    switch (o->type) {
    case T_INIT: snprintf(buf, n, "init"); break;
    case T_KEY:
        if (g_c == CK_MANTIS) snprintf(buf, n, "set_key(K%d,16,rounds=%d)", o->a, o->b);
        else snprintf(buf, n, "set_key(K%d,%d)", o->a, o->b);
        break;
    case T_TKEY: snprintf(buf, n, "set_tweaked_key(K%d,%d)", o->a, o->b); break;
    case T_TWEAK: snprintf(buf, n, "set_tweak(%s,%d)", TWNULL[o->a] ? "NULL" : hexs(TWEAKS[o->a], (size_t)TWLEN[o->a]), TWLEN[o->a]); break;
    case T_CTR: snprintf(buf, n, "set_counter(%s,%d)", CTNULL[o->a] ? "NULL" : hexs(CTRS[o->a] + (CTLEN[o->a] ? 0 : 0), (size_t)CTLEN[o->a]), CTLEN[o->a]); break;
    case T_ENC: snprintf(buf, n, "encrypt(%d%s)", o->a, o->b ? ",in-place" : ""); break;
    case T_CLEANUP: snprintf(buf, n, "cleanup"); break;
    case T_BAD: snprintf(buf, n, "INVALID %s", BADNAME[o->a]); break;
    }
}

static void report(const char *cls, int opi, const char *fmt, ...)
{
    char sig[300], on[160], detail[1500];
    va_list ap;
    const Op *o = &g_ops[opi];
    va_start(ap, fmt); vsnprintf(detail, sizeof(detail), fmt, ap); va_end(ap);
    /* signature: property-mode / cipher / class / operation type (not its arguments) */
    switch (o->type) {
    case T_BAD: snprintf(on, sizeof(on), "%s", BADNAME[o->a]); break;
    case T_TWEAK: snprintf(on, sizeof(on), "set_tweak(%s)", TWNULL[o->a] ? "NULL" : "ptr"); break;
    case T_CTR: snprintf(on, sizeof(on), "set_counter(%s)", CTNULL[o->a] ? "NULL" : "ptr"); break;
    case T_ENC: snprintf(on, sizeof(on), "encrypt"); break;
    case T_KEY: snprintf(on, sizeof(on), "set_key"); break;
    case T_TKEY: snprintf(on, sizeof(on), "set_tweaked_key"); break;
    case T_INIT: snprintf(on, sizeof(on), "init"); break;
    default: snprintf(on, sizeof(on), "cleanup"); break;
    }
    snprintf(sig, sizeof(sig), "%s/ctr/%s/%s/%s", g_mode == MODE_C05 ? "C05" : (g_mode == MODE_C06 ? "C06" : "C14"),
             cipher_name(g_c), cls, on);
    violation(sig, mc_casedesc(), "%s | history: %s", detail, mc_history_text());
}

static int live_streams_defined(void) { return W.defined && W.keyed; }

static void w_apply(int opi, int check)
{
    const Op *o = &g_ops[opi];
    int i, r[3] = {0, 0, 0};
    static uint8_t before[3][8192]; size_t blen[3] = {0, 0, 0};
    int want_images = check && (o->type == T_BAD);

    if (want_images) for (i = 0; i < g_nbe; ++i) blen[i] = ctr_image(g_c, &W.obj[i], before[i], sizeof(before[i]));

    switch (o->type) {
    case T_INIT:
        for (i = 0; i < g_nbe; ++i) {
            r[i] = ctr_init(g_c, g_be[i], &W.obj[i]);
            if (check && r[i] && ctr_backend(g_c, &W.obj[i]) < 0)
                report("init-left-unknown-vtable", opi, "after init with back end %s available the object's function table is not one of the library's", be_name(g_be[i]));
            else if (check && r[i] && ctr_backend(g_c, &W.obj[i]) != g_be[i])
                engine_error("pinning failed: wanted %s got %d", be_name(g_be[i]), ctr_backend(g_c, &W.obj[i]));
        }
        W.phase = PH_LIVE; W.defined = 1; W.ksoff = g_bs; memset(W.counter, 0, 16);
        if (check) for (i = 0; i < g_nbe; ++i) if (!r[i]) report("init-failed", opi, "init returned 0 on back end %s", be_name(g_be[i]));
        break;
    case T_KEY: case T_TKEY: {
        const uint8_t *k = KEYS[o->a];
        unsigned len = g_c == CK_MANTIS ? 16 : (unsigned)o->b;
        for (i = 0; i < g_nbe; ++i)
            r[i] = o->type == T_KEY ? ctr_set_key(g_c, &W.obj[i], k, len, (unsigned)o->b)
                                    : ctr_set_tweaked_key(g_c, &W.obj[i], k, len);
        if (W.phase == PH_LIVE) {
            memset(W.key, 0, 48); memcpy(W.key, k, len); W.klen = (int)((len + (unsigned)g_bs - 1) / (unsigned)g_bs * (unsigned)g_bs); W.rounds = o->b;   /* in-between lengths are zero-padded to the next primary size */
            W.keyed = o->type == T_KEY ? 1 : 2;
            if (o->type == T_TKEY || g_c == CK_MANTIS) memset(W.tweak, 0, 16);
            if (W.consumed > 0 || W.unkeyed_enc > 0) { W.defined = 0; ++W.nreconf; }
            else if (g_mode == MODE_C06 && W.nkey >= 1) ++W.nreconf;    /* re-key before data: followed by one data call, like the other reconfigurations of this mode */
            W.ksoff = g_bs; W.ksvalid = 0;
            ++W.nkey; if (W.keyidx < 0) W.keyidx = opi;
        }
        if (check) for (i = 0; i < g_nbe; ++i) {
            int want = W.phase == PH_LIVE ? 1 : 0;
            if (r[i] != want) report("return-value", opi, "returned %d, expected %d on back end %s", r[i], want, be_name(g_be[i]));
        }
        break; }
    case T_TWEAK: {
        const uint8_t *t = TWNULL[o->a] ? NULL : TWEAKS[o->a];
        for (i = 0; i < g_nbe; ++i) r[i] = ctr_set_tweak(g_c, &W.obj[i], t, (unsigned)TWLEN[o->a]);
        if (W.phase == PH_LIVE) {
            if (W.keyed == 2 || g_c == CK_MANTIS) {
                memset(W.tweak, 0, 16);
                if (t) memcpy(W.tweak, t, (size_t)TWLEN[o->a]);
            } else W.defined = 0;   /* tweak on a plain key schedule: outside C05 */
            if (W.consumed > 0) { W.defined = 0; ++W.nreconf; }
            W.ksoff = g_bs; W.ksvalid = 0;
            ++W.ntweak; if (o->a >= 3) W.exotic = 1;
        }
        if (check) for (i = 0; i < g_nbe; ++i) {
            int want = W.phase == PH_LIVE ? 1 : 0;
            if (r[i] != want) report("return-value", opi, "returned %d, expected %d on back end %s", r[i], want, be_name(g_be[i]));
        }
        break; }
    case T_CTR: {
        const uint8_t *cp = CTNULL[o->a] ? NULL : CTRS[o->a];
        for (i = 0; i < g_nbe; ++i) r[i] = ctr_set_counter(g_c, &W.obj[i], cp, (unsigned)CTLEN[o->a]);
        if (W.phase == PH_LIVE) {
            memset(W.counter, 0, 16);
            if (cp) memcpy(W.counter + g_bs - CTLEN[o->a], cp, (size_t)CTLEN[o->a]);
            W.ksoff = g_bs; W.ksvalid = 0; W.defined = 1;
            if (W.consumed > 0) W.seg2 = 1;
            W.consumed = 0; W.nenc = 0; ++W.nctr; if (o->a >= 3) W.exotic = 1;
        }
        if (check) for (i = 0; i < g_nbe; ++i) {
            int want = W.phase == PH_LIVE ? 1 : 0;
            if (r[i] != want) report("return-value", opi, "returned %d, expected %d on back end %s", r[i], want, be_name(g_be[i]));
        }
        break; }
    case T_ENC: {
        int len = o->a;
        fill_input(inbuf, len, o->b);
        for (i = 0; i < g_nbe; ++i) {
            if (o->b) { memcpy(outbuf[i], inbuf, (size_t)len); r[i] = ctr_encrypt(g_c, &W.obj[i], outbuf[i], outbuf[i], (size_t)len); }
            else { memset(outbuf[i], 0xEE, (size_t)len + 8); r[i] = ctr_encrypt(g_c, &W.obj[i], outbuf[i], inbuf, (size_t)len); }
        }
        if (check) for (i = 0; i < g_nbe; ++i) { out_digest("ctr-output", outbuf[i], (size_t)len); out_digest("ctr-return", &r[i], sizeof(int)); }
        if (W.phase == PH_LIVE && W.keyed) {
            int defd = live_streams_defined();
            if (defd) model_stream(inbuf, expbuf, len, check);
            else { /* generic semantics not modelled: keep counters coarse */ }
            if (check) {
                for (i = 0; i < g_nbe; ++i) {
                    if (r[i] != 1) report("return-value", opi, "encrypt returned %d on back end %s", r[i], be_name(g_be[i]));
                    else if (defd && g_mode == MODE_C05 && memcmp(outbuf[i], expbuf, (size_t)len) != 0) {
                        int d = 0; while (d < len && outbuf[i][d] == expbuf[d]) ++d;
                        report("stream-model", opi,
                               "back end %s: output differs from in xor E(c+i) at byte %d of this call (stream offset %d): got %02x expected %02x",
                               be_name(g_be[i]), d, W.consumed + d, outbuf[i][d], expbuf[d]);
                    }
                    if (!o->b && outbuf[i][len] != 0xEE) report("overrun", opi, "wrote past the output length on %s", be_name(g_be[i]));
                }
            }
            { int was_over = W.consumed >= cur_bound();
              W.consumed += len; W.pos += (uint64_t)len; if (g_mode == MODE_C06) ++W.nenc;
              if (was_over) W.followup = 2; else if (W.consumed >= cur_bound() && len >= 3 * g_maxbatch && !W.followup) W.followup = 1; }
            if (W.nreconf) ++W.nafter;
        } else if (W.phase == PH_LIVE) {
            ++W.unkeyed_enc;
        } else if (W.phase == PH_CLEANED) {
            ++W.postclean;
            if (check) for (i = 0; i < g_nbe; ++i) if (r[i] != 0) report("return-value", opi, "encrypt on a cleaned-up object returned %d", r[i]);
        }
        if (check && g_mode == MODE_C06) {
            for (i = 1; i < g_nbe; ++i) {
                if (r[i] != r[0]) report("backend-return", opi, "return %d on %s vs %d on %s", r[i], be_name(g_be[i]), r[0], be_name(g_be[0]));
                else if (r[0] == 1 && memcmp(outbuf[i], outbuf[0], (size_t)len) != 0) {
                    int d = 0; while (d < len && outbuf[i][d] == outbuf[0][d]) ++d;
                    report(W.nreconf ? "backend-output-after-midstream-rekey" :
                           (W.nctr == 0 && W.nkey <= 1 ? "backend-output-no-counter-set" : "backend-output"), opi,
                           "%s and %s differ at byte %d of this call: %02x vs %02x", be_name(g_be[i]), be_name(g_be[0]), d, outbuf[i][d], outbuf[0][d]);
                }
            }
        }
        break; }
    case T_CLEANUP:
        for (i = 0; i < g_nbe; ++i) ctr_cleanup(g_c, &W.obj[i]);
        if (W.phase == PH_CLEANED) ++W.postclean;
        W.phase = PH_CLEANED; W.keyed = 0;
        break;
    case T_BAD: {
        static const uint8_t kk[1024] = {1,2,3,4,5,6,7,8,9,10,11,12,13,14,15,16,17,18,19,20};
        uint8_t small[8];
        int B = g_bs;
        for (i = 0; i < g_nbe; ++i) {
            CtrObj *ob = &W.obj[i];
            switch (o->a) {
            case BAD_NULL_OBJ_KEY: r[i] = ctr_set_key(g_c, NULL, kk, g_c == CK_MANTIS ? 16 : (unsigned)B, 5); break;
            case BAD_NULL_OBJ_TKEY: r[i] = ctr_set_tweaked_key(g_c, NULL, kk, (unsigned)B); break;
            case BAD_NULL_OBJ_TWEAK: r[i] = ctr_set_tweak(g_c, NULL, kk, (unsigned)B); break;
            case BAD_NULL_OBJ_CTR: r[i] = ctr_set_counter(g_c, NULL, kk, (unsigned)B); break;
            case BAD_NULL_OBJ_ENC: r[i] = ctr_encrypt(g_c, NULL, small, kk, 1); break;
            case BAD_NULL_KEY: r[i] = ctr_set_key(g_c, ob, NULL, g_c == CK_MANTIS ? 16 : (unsigned)B, 5); break;
            case BAD_NULL_TKEY: r[i] = ctr_set_tweaked_key(g_c, ob, NULL, (unsigned)B); break;
            case BAD_KEY_SHORT: r[i] = ctr_set_key(g_c, ob, kk, (unsigned)B - 1, 5); break;
            case BAD_KEY_LONG: r[i] = ctr_set_key(g_c, ob, kk, 3u * (unsigned)B + 1, 5); break;
            case BAD_TKEY_SHORT: r[i] = ctr_set_tweaked_key(g_c, ob, kk, (unsigned)B - 1); break;
            case BAD_TKEY_LONG: r[i] = ctr_set_tweaked_key(g_c, ob, kk, 2u * (unsigned)B + 1); break;
            case BAD_TWEAK_LEN0: r[i] = ctr_set_tweak(g_c, ob, kk, 0); break;
            case BAD_TWEAK_LONG: r[i] = ctr_set_tweak(g_c, ob, kk, (unsigned)B + 1); break;
            case BAD_CTR_LONG: r[i] = ctr_set_counter(g_c, ob, kk, (unsigned)B + 1); break;
            case BAD_ENC_NULL_OUT: r[i] = ctr_encrypt(g_c, ob, NULL, kk, 1); break;
            case BAD_ENC_NULL_IN: r[i] = ctr_encrypt(g_c, ob, small, NULL, 1); break;
            case BAD_ENC_NULL_BOTH: r[i] = ctr_encrypt(g_c, ob, NULL, NULL, 1); break;
            case BAD_ENC_NULL_OUT0: r[i] = ctr_encrypt(g_c, ob, NULL, kk, 0); break;
            case BAD_ENC_NULL_IN0: r[i] = ctr_encrypt(g_c, ob, small, NULL, 0); break;
            case BAD_MANTIS_ROUNDS4: r[i] = ctr_set_key(g_c, ob, kk, 16, 4); break;
            case BAD_MANTIS_ROUNDS9: r[i] = ctr_set_key(g_c, ob, kk, 16, 9); break;
            case BAD_MANTIS_KEY15: r[i] = ctr_set_key(g_c, ob, kk, 15, 5); break;
            case BAD_MANTIS_KEY17: r[i] = ctr_set_key(g_c, ob, kk, 17, 5); break;
            case BAD_MANTIS_TWEAK7: r[i] = ctr_set_tweak(g_c, ob, kk, 7); break;
            case BAD_MANTIS_TWEAK9: r[i] = ctr_set_tweak(g_c, ob, kk, 9); break;
            case BAD_TWEAK_NULL_LEN0: r[i] = ctr_set_tweak(g_c, ob, NULL, 0); break;
            case BAD_TWEAK_NULL_LONG: r[i] = ctr_set_tweak(g_c, ob, NULL, (unsigned)B + 1); break;
            case BAD_CTR_NULL_LONG: r[i] = ctr_set_counter(g_c, ob, NULL, (unsigned)B + 1); break;
            case BAD_MANTIS_TWEAK_NULL7: r[i] = ctr_set_tweak(g_c, ob, NULL, 7); break;
            case BAD_MANTIS_TWEAK_NULL9: r[i] = ctr_set_tweak(g_c, ob, NULL, 9); break;
            /* round counts that equal a legal one modulo 32 / modulo 2^31 */
            case BAD_MANTIS_ROUNDS37: r[i] = ctr_set_key(g_c, ob, kk, 16, 37); break;
            case BAD_MANTIS_ROUNDS_HIGH: r[i] = ctr_set_key(g_c, ob, kk, 16, 0x80000006u); break;
            case BAD_CTR_256: r[i] = ctr_set_counter(g_c, ob, kk, 256); break;
            case BAD_CTR_256B: r[i] = ctr_set_counter(g_c, ob, kk, 256u + (unsigned)B); break;
            case BAD_CTR_65536B: r[i] = ctr_set_counter(g_c, ob, kk, 65536u + (unsigned)B); break;
            case BAD_TWEAK_256B: r[i] = ctr_set_tweak(g_c, ob, kk, 256u + (unsigned)B); break;
            case BAD_TWEAK_65536B: r[i] = ctr_set_tweak(g_c, ob, kk, 65536u + (unsigned)B); break;
            case BAD_CTR_NULL_256B: r[i] = ctr_set_counter(g_c, ob, NULL, 256u + (unsigned)B); break;
            }
        }
        if (check) {
            static uint8_t after[8192];
            for (i = 0; i < g_nbe; ++i) {
                size_t al = ctr_image(g_c, &W.obj[i], after, sizeof(after));
                if (r[i] != 0) report("invalid-call-return", opi, "returned %d (expected 0) on back end %s", r[i], be_name(g_be[i]));
                if (al != blen[i] || memcmp(after, before[i], al) != 0)
                    report("invalid-call-changed-object", opi, "object image changed on back end %s", be_name(g_be[i]));
            }
            if (!arena_check_canaries()) report("invalid-call-wrote-outside", opi, "allocator slack bytes modified");
            if (g_mode == MODE_C06) for (i = 1; i < g_nbe; ++i) if (r[i] != r[0]) report("backend-return", opi, "return %d vs %d", r[i], r[0]);
        }
        break; }
    }
    if (check && (g_lerr.foreign_free || g_lerr.double_free || g_lerr.interior_free))
        report("allocator-misuse", opi, "foreign_free=%d double_free=%d interior_free=%d", g_lerr.foreign_free, g_lerr.double_free, g_lerr.interior_free);
}

static size_t w_canon(uint8_t *buf, size_t cap)
{
    size_t o = 0; int i;
    for (i = 0; i < g_nbe; ++i) o += ctr_image(g_c, &W.obj[i], buf + o, cap - o);
    if (o + 256 > cap) engine_error("canon overflow");
    /* model state and budgets */
    memcpy(buf + o, &W.phase, (size_t)((uint8_t *)&W.pos - (uint8_t *)&W.phase)); o += (size_t)((uint8_t *)&W.pos - (uint8_t *)&W.phase);
    return o;
}

static MCKind KIND;
static char kind_name[96], sig_base[96];

static void setup(Cipher c, int mode, int only_key)
{
    int be, mx;
    g_c = c; g_mode = mode; g_bs = cipher_bs(c); g_only_key = only_key;
    mx = cipher_max_be(c);
    g_nbe = 0; g_maxbatch = 0;
    for (be = 0; be <= mx; ++be) { g_be[g_nbe++] = be; if (ctr_batch(c, be) > g_maxbatch) g_maxbatch = ctr_batch(c, be); }
    build_alphabet();
    snprintf(kind_name, sizeof(kind_name), "ctr-%s-%s-k%d-%s", mode == MODE_C05 ? "c05" : (mode == MODE_C06 ? "c06" : "c14"),
             cipher_name(c), only_key, g_opts.tier);
    snprintf(sig_base, sizeof(sig_base), "%s/ctr/%s/crash", mode == MODE_C05 ? "C05" : (mode == MODE_C06 ? "C06" : "C14"), cipher_name(c));
    KIND.sigbase = sig_base;
    KIND.name = kind_name; KIND.nops = g_nops; KIND.reset = w_reset; KIND.enabled = w_enabled;
    KIND.apply = w_apply; KIND.canon = w_canon; KIND.opname = opname; KIND.max_depth = 90;
    KIND.world = &W; KIND.world_size = sizeof(W);
}

static int parse_kind(const char *name, Cipher *c, int *mode, int *only)
{
    char m[8], cn[16], tier[16];
    if (sscanf(name, "ctr-%3[^-]-%15[^-]-k%d-%15s", m, cn, only, tier) != 4) return 0;
    *mode = !strcmp(m, "c05") ? MODE_C05 : (!strcmp(m, "c06") ? MODE_C06 : MODE_C14);
    *c = !strcmp(cn, "skinny128") ? CK_S128 : (!strcmp(cn, "skinny64") ? CK_S64 : CK_MANTIS);
    g_opts.tier = !strcmp(tier, "thorough") ? "thorough" : "quick";
    return 1;
}

/* Long runs on one object (quantities a breadth-first search over short histories does not reach): a thousand
 * bytes in some 700 one- and two-byte requests against one request on a fresh object, then 300 counter resets and
 * 300 re-keys, each followed by a short request and compared with a fresh object given the same last calls. */
static void marathon(Cipher c, int be)
{
    CtrObj o, r; static uint8_t in[1200], out[1200], ref[1200]; int i, bs = cipher_bs(c); size_t pos = 0; char cd[64], sig[120];
    snprintf(cd, sizeof(cd), "c05m %d %d", (int)c, be);
    snprintf(sig, sizeof(sig), "C05/ctr/%s/long-run", cipher_name(c));
    if (guard_enter(sig, cd)) return;
    arena_reset(); memset(&o, 0, sizeof(o)); memset(&r, 0, sizeof(r));
    lcg_fill(in, sizeof(in), 55);
    if (!ctr_init(c, be, &o) || !ctr_init(c, be, &r)) engine_error("marathon init");
    if (c == CK_MANTIS) { ctr_set_key(c, &o, KEYS[0], 16, 7); ctr_set_key(c, &r, KEYS[0], 16, 7); }
    else { ctr_set_key(c, &o, KEYS[0], (unsigned)bs * 2, 0); ctr_set_key(c, &r, KEYS[0], (unsigned)bs * 2, 0); }
    ctr_encrypt(c, &r, ref, in, 1000);
    for (i = 0; pos < 1000; ++i) { size_t n = 1 + (size_t)(i % 3 == 2); if (pos + n > 1000) n = 1000 - pos; ctr_encrypt(c, &o, out + pos, in + pos, n); pos += n; }
    ++g_cnt.evaluations;
    if (memcmp(out, ref, 1000) != 0) { size_t d = 0; while (out[d] == ref[d]) ++d;
        violation(sig, cd, "%s on %s: 1000 bytes in %d one- and two-byte requests differ from one request at byte %zu", cipher_name(c), be_name(be), i, d); }
    ctr_cleanup(c, &r);
    for (i = 0; i < 600; ++i) {
        uint8_t cv[16], c2[16], ks[16]; int rekey = i >= 300, j; const uint8_t *key = KEYS[rekey ? (i & 1) : 0];
        unsigned klen = c == CK_MANTIS ? 16 : (unsigned)bs * 2;
        memset(cv, 0, 16); cv[bs - 1] = (uint8_t)i; cv[bs - 2] = (uint8_t)(i >> 8); cv[0] = (uint8_t)(i * 7);
        if (rekey) ctr_set_key(c, &o, key, klen, 7);
        ctr_set_counter(c, &o, cv, (unsigned)bs);
        ctr_encrypt(c, &o, out, in + i, (size_t)bs + 1);
        /* in xor E(c), E(c+1) with the library's block function (tied to the specification by C01 / C02) */
        memcpy(c2, cv, 16);
        for (j = 0; j <= bs; ++j) {
            if (j % bs == 0) { int q; if (!blk_crypt(c, key, klen, 7, 0, c2, ks)) engine_error("marathon model"); for (q = bs - 1; q >= 0; --q) if (++c2[q] != 0) break; }
            ref[j] = (uint8_t)(in[i + j] ^ ks[j % bs]);
        }
        ++g_cnt.evaluations;
        if (memcmp(out, ref, (size_t)bs + 1) != 0) { violation(sig, cd, "%s on %s: after %d earlier %s on the object, set_counter + encrypt(%d) differs from in xor E(c), E(c+1)",
                                                              cipher_name(c), be_name(be), i, rekey ? "re-keys and counter resets" : "counter resets", bs + 1); break; }
    }
    ctr_cleanup(c, &o);
    guard_leave();
}

static void body(void)
{
    int mode = !strcmp(g_opts.sub, "c05") ? MODE_C05 : (!strcmp(g_opts.sub, "c06") ? MODE_C06 : MODE_C14);
    int c, k, job = 0, closed_all = 1;
    if (ref_selftest() != 0) engine_error("reference self-test failed");
    if (g_opts.replay) {
        Cipher cc; int mm, only; char nm[96]; const char *colon = strrchr(g_opts.replay, ':');
        const MCKind *kp = &KIND;
        { int mc_, mb_; if (sscanf(g_opts.replay, "c05m %d %d", &mc_, &mb_) == 2) { setup((Cipher)mc_, MODE_C05, 0); lcg_fill(KEYS[0], 48, 4242); lcg_fill(KEYS[1], 48, 4243); marathon((Cipher)mc_, mb_); return; } }
        if (!colon || (size_t)(colon - g_opts.replay) >= sizeof(nm)) engine_error("bad replay");
        memcpy(nm, g_opts.replay, (size_t)(colon - g_opts.replay)); nm[colon - g_opts.replay] = 0;
        if (!parse_kind(nm, &cc, &mm, &only)) engine_error("bad replay kind");
        setup(cc, mm, only);
        mc_replay(&kp, 1, g_opts.replay);
        return;
    }
    for (c = 0; c < 3; ++c) {
        int nk;
        setup((Cipher)c, mode, 0);
        nk = g_nkeyops;
        for (k = 0; k < nk; ++k, ++job) {
            char on[160];
            if (job % g_opts.nshards != g_opts.shard) continue;
            setup((Cipher)c, mode, k);
            if (!mc_explore(&KIND)) closed_all = 0;
            opname(g_keyop_first + k, on, sizeof(on));
            if (job < 4) sample_add("%s: init; %s; set_counter(..); encrypt(%d); encrypt(%d) ... on back ends {%s%s%s} in lock step",
                                    kind_name, on, LENS[1], LENS[3], be_name(g_be[0]), g_nbe > 1 ? ",v128" : "", g_nbe > 2 ? ",v256" : "");
        }
    }
    if (mode == MODE_C05) {
        int be;
        for (c = 0; c < 3; ++c) for (be = 0; be <= cipher_max_be((Cipher)c); ++be, ++job) {
            if (job % g_opts.nshards != g_opts.shard) continue;
            lcg_fill(KEYS[0], 48, 4242); lcg_fill(KEYS[1], 48, 4243);
            marathon((Cipher)c, be);
        }
    }
    note_num("kinds_cut_by_depth_cap", closed_all ? 0 : 1);
    distinct_add_u64(1);
}

int main(int argc, char **argv)
{
    parse_opts(argc, argv);
    g_obj_args_copy = 1;    /* every key, tweak and counter buffer of this harness is at least as long as the length passed with it */
    run_prelude();
    if (!g_opts.sub) engine_error("--sub required");
    return mc_guarded_main(body);
}
