/* Uniform access to the three CTR kinds and three parallel-ECB kinds. */
#ifndef VERIF_OBJ_H
#define VERIF_OBJ_H
#include "common.h"
#include "alloc.h"

typedef enum { CK_S128 = 0, CK_S64 = 1, CK_MANTIS = 2 } Cipher;

typedef union {
    Skinny128CTR_t s128; Skinny64CTR_t s64; MantisCTR_t m;
    struct { const void *vtable; void *ctx; } raw;
} CtrObj;

typedef union {
    Skinny128ParallelECB_t s128; Skinny64ParallelECB_t s64; MantisParallelECB_t m;
    struct { const void *vtable; void *ctx; size_t parallel_size; } raw;
} ParObj;

const char *cipher_name(Cipher c);
int cipher_bs(Cipher c);
int cipher_max_be(Cipher c);                 /* widest back end of this cipher available now */
int ctr_batch(Cipher c, int be);             /* keystream batch in bytes */
int par_batch(Cipher c, int be);             /* expected parallel_size */

/* CTR; `be` pins the back end for init.  rounds only for Mantis. */
int ctr_init(Cipher c, int be, CtrObj *o);
void ctr_cleanup(Cipher c, CtrObj *o);
extern int g_obj_args_copy;   /* setters pass a scratch copy of key / tweak / counter and overwrite it after the call */
int ctr_set_key(Cipher c, CtrObj *o, const void *key, unsigned len, unsigned rounds);
int ctr_set_tweaked_key(Cipher c, CtrObj *o, const void *key, unsigned len);
int ctr_set_tweak(Cipher c, CtrObj *o, const void *tweak, unsigned len);
int ctr_set_counter(Cipher c, CtrObj *o, const void *counter, unsigned len);
int ctr_encrypt(Cipher c, CtrObj *o, void *out, const void *in, size_t len);
/* BE_* from the vtable, -1 null vtable, -2 unknown pointer */
int ctr_backend(Cipher c, const CtrObj *o);

/* Parallel ECB.  mode: for Mantis set_key (MANTIS_ENCRYPT/DECRYPT); dir: 0 encrypt 1 decrypt (Skinny) */
int par_init(Cipher c, int be, ParObj *o);
void par_cleanup(Cipher c, ParObj *o);
int par_set_key(Cipher c, ParObj *o, const void *key, unsigned len, unsigned rounds, int mode);
int par_crypt(Cipher c, const ParObj *o, void *out, const void *in, const void *tweak, size_t len, int dir);
void par_swap_modes(ParObj *o);              /* Mantis only */
int par_backend(Cipher c, const ParObj *o);

/* Canonical byte image of handle + owned block (addresses normalised).  Returns length. */
size_t ctr_image(Cipher c, const CtrObj *o, uint8_t *buf, size_t cap);
size_t par_image(Cipher c, const ParObj *o, uint8_t *buf, size_t cap);

/* Single-block primitives through the public API (key of a documented length) */
int blk_crypt(Cipher c, const uint8_t *key, unsigned klen, unsigned rounds, int dir,
              const uint8_t *in, uint8_t *out);

extern int g_obj_keep_prior;   /* 1: the init wrappers leave the handle's prior content alone */

#endif
