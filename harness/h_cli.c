/*
 * Oracle side of C20: computes, with direct library calls, what the example tools must
 * write.  usage: h_cli <ctr|ecb|tweak> <enc|dec> <bs 8|16> <keyhex> <tweak/counter hex or -> <infile> <outfile>
 *  ctr:   skinny{64,128}_ctr_* with the key and (left-padded) counter, whole file;
 *  ecb:   single-block encrypt/decrypt of every whole block, trailing partial block dropped;
 *  tweak: block i processed under tweak + i (big-endian increment over the given tweak
 *         bytes, then zero-padded on the right by set_tweak), trailing partial block dropped.
 */
#include <stdio.h>
#include <stdlib.h>
#include <string.h>
#include "skinny128-cipher.h"
#include "skinny64-cipher.h"

static int unhex(uint8_t *dst, size_t cap, const char *s)
{
    size_t n = 0; unsigned v;
    while (s[0] && s[1] && n < cap) { if (sscanf(s, "%2x", &v) != 1) return -1; dst[n++] = (uint8_t)v; s += 2; }
    return (int)n;
}

int main(int argc, char **argv)
{
    uint8_t key[64], tw[16], *data; int klen, tlen = 0, bs, dec; long n, i; FILE *f; size_t outn = 0;
    if (argc != 8) return 2;
    dec = !strcmp(argv[2], "dec"); bs = atoi(argv[3]);
    klen = unhex(key, sizeof(key), argv[4]);
    memset(tw, 0, sizeof(tw));
    if (strcmp(argv[5], "-")) tlen = unhex(tw, sizeof(tw), argv[5]); else tlen = bs;
    if (klen <= 0 || tlen < 0) return 2;
    f = fopen(argv[6], "rb"); if (!f) return 2;
    fseek(f, 0, SEEK_END); n = ftell(f); fseek(f, 0, SEEK_SET);
    data = malloc((size_t)n + 16); if (n && fread(data, 1, (size_t)n, f) != (size_t)n) return 2; fclose(f);
    if (!strcmp(argv[1], "ctr")) {
        if (bs == 8) { Skinny64CTR_t c; if (!skinny64_ctr_init(&c) || !skinny64_ctr_set_key(&c, key, (unsigned)klen) || !skinny64_ctr_set_counter(&c, tw, (unsigned)tlen) || !skinny64_ctr_encrypt(data, data, (size_t)n, &c)) return 3; skinny64_ctr_cleanup(&c); }
        else { Skinny128CTR_t c; if (!skinny128_ctr_init(&c) || !skinny128_ctr_set_key(&c, key, (unsigned)klen) || !skinny128_ctr_set_counter(&c, tw, (unsigned)tlen) || !skinny128_ctr_encrypt(data, data, (size_t)n, &c)) return 3; skinny128_ctr_cleanup(&c); }
        outn = (size_t)n;
    } else if (!strcmp(argv[1], "ecb")) {
        Skinny64Key_t k64; Skinny128Key_t k128;
        if (bs == 8 ? !skinny64_set_key(&k64, key, (unsigned)klen) : !skinny128_set_key(&k128, key, (unsigned)klen)) return 3;
        for (i = 0; i + bs <= n; i += bs) {
            if (bs == 8) { if (dec) skinny64_ecb_decrypt(data + i, data + i, &k64); else skinny64_ecb_encrypt(data + i, data + i, &k64); }
            else { if (dec) skinny128_ecb_decrypt(data + i, data + i, &k128); else skinny128_ecb_encrypt(data + i, data + i, &k128); }
        }
        outn = (size_t)i;
    } else {
        Skinny64TweakedKey_t k64; Skinny128TweakedKey_t k128;
        if (bs == 8 ? !skinny64_set_tweaked_key(&k64, key, (unsigned)klen) : !skinny128_set_tweaked_key(&k128, key, (unsigned)klen)) return 3;
        for (i = 0; i + bs <= n; i += bs) {
            int j; unsigned carry = 1;
            if (bs == 8) { skinny64_set_tweak(&k64, tw, (unsigned)tlen); if (dec) skinny64_ecb_decrypt(data + i, data + i, &k64.ks); else skinny64_ecb_encrypt(data + i, data + i, &k64.ks); }
            else { skinny128_set_tweak(&k128, tw, (unsigned)tlen); if (dec) skinny128_ecb_decrypt(data + i, data + i, &k128.ks); else skinny128_ecb_encrypt(data + i, data + i, &k128.ks); }
            for (j = tlen - 1; j >= 0; --j) { carry += tw[j]; tw[j] = (uint8_t)carry; carry >>= 8; }
        }
        outn = (size_t)i;
    }
    f = fopen(argv[7], "wb"); if (!f) return 2;
    if (outn && fwrite(data, 1, outn, f) != outn) return 2;
    fclose(f);
    return 0;
}
