/*
 * sched: controlled scheduler for C18.
 *
 * The library is built with clang -fsanitize-coverage=trace-loads,trace-stores, so
 * every load and store of library code calls back into this file.  "Threads" are
 * ucontext coroutines on one OS thread.  An access is thread-private when it falls
 * in the running coroutine's stack, in a heap block that coroutine allocated or in a
 * region registered as private to it; everything else is shared-class.  A discovery
 * execution records, per 8-byte granule, which threads read and wrote shared-class
 * memory; the conflict set W holds the granules written by one thread and accessed
 * by another.  Scheduling points are the accesses to W; the explorer is the
 * iterative-context-bounding DFS (running thread first, a switch away from a thread
 * that is still enabled costs one preemption).  When an execution enlarges W the
 * exploration restarts.  Oracles: per-thread results equal the sequential results;
 * no store into library-global memory; no store into an object shared read-only.
 */
#define _GNU_SOURCE
#include "common.h"
#include <string.h>
#include <stdlib.h>
#include <ucontext.h>
#include <sys/mman.h>
#include <sys/wait.h>
#include <signal.h>
#include <unistd.h>

#define MAXT 3
#define STACK_SZ (512 * 1024)
#define MAXPOINTS 4096

/* ---------------- memory classification ---------------- */
enum { OWN_SHARED_RO = -2, OWN_SHARED = -3 };
typedef struct { const uint8_t *lo, *hi; int owner; const char *what; } Region;
static Region regions[64]; static int nregions;
typedef struct { uint8_t *ptr; size_t size; int owner; int live; int seq; } HeapRec;
static int heap_seq[4];   /* per-thread allocation counters (index 3: main context) */
static int track_main_allocs;
static HeapRec heap[256]; static int nheap;

static void region_add(const void *p, size_t n, int owner, const char *what)
{
    regions[nregions].lo = p; regions[nregions].hi = (const uint8_t *)p + n; regions[nregions].owner = owner; regions[nregions].what = what; ++nregions;
}

/* ---------------- coroutines ---------------- */
typedef struct { ucontext_t ctx; uint8_t *stack; int done; int started; } Thr;
static Thr T[MAXT]; static int nthr, cur = -1;
static ucontext_t main_ctx;
static int in_sched;            /* executing under the scheduler */
static int skip_shared_setup;     /* cold-start mode: no shared objects, no warm-up */
static uint64_t total_cold;

/* ---------------- access tracking ---------------- */
enum { MODE_OFF, MODE_DISCOVER, MODE_EXPLORE };
static int mode;
typedef struct { uintptr_t g; uint8_t rd, wr; } Gran;
#define GT_SIZE (1u << 16)
static Gran gtab[GT_SIZE];
static uintptr_t W[4096]; static int nW;
static uint64_t n_shared_accesses, n_private_accesses, n_points_total;
static int viol_global_store, viol_ro_store; static uintptr_t viol_addr; static const char *viol_what = "";
static int viol_thread;

static Gran *gran(uintptr_t g)
{
    size_t i = (size_t)(g * 0x9E3779B97F4A7C15ULL >> 20) & (GT_SIZE - 1);
    while (gtab[i].g && gtab[i].g != g) i = (i + 1) & (GT_SIZE - 1);
    gtab[i].g = g;
    return &gtab[i];
}

static int in_W(uintptr_t g) { int i; for (i = 0; i < nW; ++i) if (W[i] == g) return 1; return 0; }

static void yield_to_sched(void) { int me = cur; swapcontext(&T[me].ctx, &main_ctx); }
static int npoints_now(void);
static uint64_t n_point_cap_hits;

extern char __executable_start[], _end[], etext[], edata[];

/* Process-wide state outside memory: a library call that installs a signal disposition changes something every
 * thread of the process shares (link-time wraps; only calls made from inside an operation count). */
static int viol_proc_state; static const char *viol_proc_fn = "";
#define PROC_HOOK(name) do { if (in_sched && cur >= 0 && !viol_proc_state) { viol_proc_state = 1; viol_proc_fn = name; viol_thread = cur; } } while (0)
typedef void (*verif_sighandler)(int);
verif_sighandler __real_signal(int, verif_sighandler);
int __real_sigaction(int, const struct sigaction *, struct sigaction *);
verif_sighandler __wrap_signal(int sg, verif_sighandler h) { PROC_HOOK("signal"); return __real_signal(sg, h); }
int __wrap_sigaction(int sg, const struct sigaction *a, struct sigaction *o) { if (a) PROC_HOOK("sigaction"); return __real_sigaction(sg, a, o); }

/* Location keys are independent of absolute heap addresses (which may differ from one
 * execution to the next): (region id, offset), (allocating thread, allocation number,
 * offset), or the absolute address for static memory. */
static void on_access(void *addr, size_t size, int is_write)
{
    const uint8_t *a = addr;
    int i, owner = 999;
    uintptr_t g, base = 0, first, lastg;
    if (!in_sched || cur < 0) return;
    if (a >= T[cur].stack && a < T[cur].stack + STACK_SZ) { ++n_private_accesses; return; }
    for (i = 0; i < nheap; ++i) if (heap[i].live && a >= heap[i].ptr && a < heap[i].ptr + heap[i].size) {
        owner = heap[i].owner;
        base = ((uintptr_t)2 << 60) | ((uintptr_t)((heap[i].owner == OWN_SHARED_RO ? 3 : heap[i].owner) * 4096 + heap[i].seq) << 32); first = (uintptr_t)(a - heap[i].ptr);
        break;
    }
    if (owner == 999) for (i = 0; i < nregions; ++i) if (a >= regions[i].lo && a < regions[i].hi) {
        owner = regions[i].owner;
        base = ((uintptr_t)1 << 60) | ((uintptr_t)i << 32); first = (uintptr_t)(a - regions[i].lo);
        break;
    }
    if (owner == cur) { ++n_private_accesses; return; }
    if (owner == 999) { base = (uintptr_t)3 << 60; first = (uintptr_t)a & 0x0FFFFFFFFFFFFFFFULL; }
    ++n_shared_accesses;
    if (is_write) {
        if (owner == 999 && a >= (const uint8_t *)__executable_start && a < (const uint8_t *)_end) {
            if (!viol_global_store) { viol_global_store = 1; viol_addr = (uintptr_t)a; viol_thread = cur; }
        } else if (owner == OWN_SHARED_RO) {
            if (!viol_ro_store) { viol_ro_store = 1; viol_addr = (uintptr_t)a; viol_thread = cur; viol_what = "object shared read-only"; }
        }
    }
    lastg = (first + size - 1) >> 3;
    for (g = first >> 3; g <= lastg; ++g) {
        uintptr_t key = base | (g & 0xFFFFFFFFULL) | (base >> 60 == 3 ? (g & 0x0FFFFFFF00000000ULL) : 0);
        Gran *e = gran(key);
        if (is_write) e->wr |= (uint8_t)(1 << cur); else e->rd |= (uint8_t)(1 << cur);
        if (mode == MODE_EXPLORE && in_W(key)) {
            /* an execution with more conflicting accesses than MAXPOINTS (a whole context handed from one
             * thread to another, say) runs its tail without further scheduling points: still a valid
             * execution, checked like the others, but the combination is then reported as not exhausted */
            if (npoints_now() >= MAXPOINTS - 8) { ++n_point_cap_hits; break; }
            ++n_points_total; yield_to_sched(); break;
        }
    }
}

void __sanitizer_cov_load1(void *a) { on_access(a, 1, 0); }
void __sanitizer_cov_load2(void *a) { on_access(a, 2, 0); }
void __sanitizer_cov_load4(void *a) { on_access(a, 4, 0); }
void __sanitizer_cov_load8(void *a) { on_access(a, 8, 0); }
void __sanitizer_cov_load16(void *a) { on_access(a, 16, 0); }
void __sanitizer_cov_store1(void *a) { on_access(a, 1, 1); }
void __sanitizer_cov_store2(void *a) { on_access(a, 2, 1); }
void __sanitizer_cov_store4(void *a) { on_access(a, 4, 1); }
void __sanitizer_cov_store8(void *a) { on_access(a, 8, 1); }
void __sanitizer_cov_store16(void *a) { on_access(a, 16, 1); }

/* libc block operations are not instrumented by the compiler: the library's calls to them are
 * routed here (-Wl,--wrap) and reported as one load and/or one store of the whole range */
void *__real_memcpy(void *, const void *, size_t);
void *__real_memmove(void *, const void *, size_t);
void *__real_memset(void *, int, size_t);
void *__wrap_memcpy(void *d, const void *s, size_t n) { if (in_sched && cur >= 0 && n) { on_access((void *)(uintptr_t)s, n, 0); on_access(d, n, 1); } return __real_memcpy(d, s, n); }
void *__wrap_memmove(void *d, const void *s, size_t n) { if (in_sched && cur >= 0 && n) { on_access((void *)(uintptr_t)s, n, 0); on_access(d, n, 1); } return __real_memmove(d, s, n); }
void *__wrap_memset(void *d, int c, size_t n) { if (in_sched && cur >= 0 && n) on_access(d, n, 1); return __real_memset(d, c, n); }

/* allocator seam: ownership of heap blocks */
void *__real_calloc(size_t, size_t);
void __real_free(void *);
void *__wrap_calloc(size_t n, size_t sz)
{
    void *p = __real_calloc(n, sz);
    if ((in_sched || track_main_allocs) && p && nheap < 256) {
        /* blocks allocated by the main context while it sets up the shared objects are shared read-only as a whole
         * (whatever their private layout); blocks allocated by a thread belong to that thread */
        int who = (in_sched && cur >= 0) ? cur : 3;
        heap[nheap].ptr = p; heap[nheap].size = n * sz; heap[nheap].owner = who == 3 ? OWN_SHARED_RO : who; heap[nheap].live = 1;
        heap[nheap].seq = heap_seq[who]++; ++nheap;
    }
    return p;
}
void __wrap_free(void *p)
{
    int i;
    for (i = 0; i < nheap; ++i) if (heap[i].live && heap[i].ptr == (uint8_t *)p) heap[i].live = 0;
    __real_free(p);
}

#ifdef USE_PIN
/* pin.c provides the wrapped probes */
#else
int g_pin_unused;
#endif

#ifdef USE_PIN
#define THR_PREPARE_HOOK (g_pin = max_backend())
#endif
#include "thr_ops.h"

static int cur_ops[MAXT];

static void thread_main(int t)
{
    OPS[cur_ops[t]].run(&ctxs[t]);
    T[t].done = 1;
    swapcontext(&T[t].ctx, &main_ctx);
}

/* ---------------- one execution under a choice prefix ---------------- */
typedef struct { int nenabled; int enabled[MAXT]; int chosen; int running_enabled; } Point;
static Point points[MAXPOINTS]; static int npoints;
static int npoints_now(void) { return npoints; }
static int choices[MAXPOINTS];

static void setup_regions(void)
{
    int t;
    nregions = 0; nheap = 0; memset(heap_seq, 0, sizeof(heap_seq));
    for (t = 0; t < nthr; ++t) region_add(&ctxs[t], sizeof(Ctx), t, "thread context");
    region_add(&shared, sizeof(shared), OWN_SHARED_RO, "shared read-only objects");
    region_add(adj, sizeof(adj), OWN_SHARED, "caller's array of adjacent output slices");
}

static int run_execution(const int *prefix, int nprefix)
{
    int t, last = -1;
    setup_regions();
    track_main_allocs = 1;
    if (!skip_shared_setup) shared_prepare(); else { memset(&shared, 0, sizeof(shared)); ctl_counter = 0; }
    track_main_allocs = 0;
    for (t = 0; t < nthr; ++t) ctx_prepare(t);
    npoints = 0;
    for (t = 0; t < nthr; ++t) {
        T[t].done = 0; T[t].started = 0;
        getcontext(&T[t].ctx);
        T[t].ctx.uc_stack.ss_sp = T[t].stack; T[t].ctx.uc_stack.ss_size = STACK_SZ; T[t].ctx.uc_link = &main_ctx;
        makecontext(&T[t].ctx, (void (*)(void))thread_main, 1, t);
    }
    in_sched = 1;
    for (;;) {
        Point *p; int n = 0, idx;
        if (npoints >= MAXPOINTS) engine_error("too many scheduling points in one execution");
        p = &points[npoints];
        p->running_enabled = last >= 0 && !T[last].done;
        if (p->running_enabled) p->enabled[n++] = last;
        for (t = 0; t < nthr; ++t) if (!T[t].done && t != last) p->enabled[n++] = t;
        if (p->running_enabled == 0 && last >= 0) { /* canonical order: ascending ids */ }
        p->nenabled = n;
        if (n == 0) break;
        idx = npoints < nprefix ? prefix[npoints] : 0;
        if (idx < 0 || idx >= n) engine_error("replay diverged: choice %d of %d at point %d", idx, n, npoints);
        p->chosen = idx; choices[npoints] = idx; ++npoints;
        cur = p->enabled[idx]; last = cur;
        swapcontext(&main_ctx, &T[cur].ctx);
        cur = -1;
    }
    in_sched = 0;
    if (!skip_shared_setup) shared_release();
    return npoints;
}

static int preemptions_before(int i)
{
    int k, c = 0;
    for (k = 0; k < i; ++k) if (points[k].running_enabled && points[k].chosen != 0) ++c;
    return c;
}

static uint64_t seq_digest[MAXT];
static uint64_t n_exec, n_exec_cap = 200000; static int cap_hit;
static int bound;
static char pairname[200];
static uint64_t outcomes[64]; static int noutcomes;

/* Cold-start mode: each combination runs in a freshly forked child that has made no
 * library call yet, so lazily initialised state (a cached CPU probe, a table built on
 * first use) is first touched concurrently.  The child reports through shared memory. */
typedef struct { uint64_t evals, traces, shared_acc, priv_acc, points, wtotal, multi; int nviol; int engine; char sig[6][220]; char cd[6][320]; char detail[6][700];
                 int phase; char running[3000];   /* 2 = exploring: the choice prefix of the execution in progress (for a child that dies) */
} ColdRes;
static ColdRes *cold;

static void record_violation(const char *sig, const char *cd, const char *detail)
{
    if (cold) {
        if (cold->nviol < 6) {
            snprintf(cold->sig[cold->nviol], sizeof(cold->sig[0]), "%s", sig); snprintf(cold->cd[cold->nviol], sizeof(cold->cd[0]), "%s", cd);
            snprintf(cold->detail[cold->nviol], sizeof(cold->detail[0]), "%s", detail); ++cold->nviol;
        }
        ++g_cnt.violations;
    } else violation(sig, cd, "%s", detail);
}

static void check_execution(void)
{
    int t; char cd[300], sig[200], det[700]; size_t o; int i;
    uint64_t oc = 0;
    ++n_exec; ++g_cnt.evaluations; ++g_cnt.traces;
    o = (size_t)snprintf(cd, sizeof(cd), "c18%s %d", skip_shared_setup ? (mode == MODE_DISCOVER ? "cold" : "ns") : "", nthr);
    for (t = 0; t < nthr; ++t) o += (size_t)snprintf(cd + o, sizeof(cd) - o, " %d", cur_ops[t]);
    o += (size_t)snprintf(cd + o, sizeof(cd) - o, " :");
    for (i = 0; i < npoints && o + 4 < sizeof(cd); ++i) o += (size_t)snprintf(cd + o, sizeof(cd) - o, " %d", choices[i]);
    for (t = 0; t < nthr; ++t) oc = fnv1a(&ctxs[t].digest, 8, oc);
    for (i = 0; i < noutcomes; ++i) if (outcomes[i] == oc) break;
    if (i == noutcomes && noutcomes < 64) outcomes[noutcomes++] = oc;
    if (control_mode) {
        for (t = 0; t < nthr; ++t) if (ctxs[t].digest != seq_digest[t]) control_differs = 1;
        if (viol_global_store) control_store = 1;
        viol_global_store = viol_ro_store = 0; viol_proc_state = 0;
        return;
    }
    for (t = 0; t < nthr; ++t) if (ctxs[t].digest != seq_digest[t]) {
        snprintf(sig, sizeof(sig), "C18/results-differ-from-sequential/%s", OPS[cur_ops[t]].name);
        snprintf(det, sizeof(det), "%s: thread %d (%s) produced results different from its sequential run under schedule [%s]", pairname, t, OPS[cur_ops[t]].name, strchr(cd, ':') + 1);
        record_violation(sig, cd, det);
    }
    if (viol_global_store) {
        snprintf(sig, sizeof(sig), "C18/store-to-library-global/%s", OPS[cur_ops[viol_thread]].name);
        snprintf(det, sizeof(det), "%s%s: thread %d (%s) stored to static memory at offset +0x%lx from the executable base: the library has mutable global state",
                 skip_shared_setup ? "[cold start] " : "", pairname, viol_thread, OPS[cur_ops[viol_thread]].name, (unsigned long)(viol_addr - (uintptr_t)__executable_start));
        record_violation(sig, cd, det);
        viol_global_store = 0;
    }
    if (viol_proc_state) {
        snprintf(sig, sizeof(sig), "C18/process-wide-state-changed/%s", OPS[cur_ops[viol_thread]].name);
        snprintf(det, sizeof(det), "%s%s: thread %d (%s) called %s(): the library installs a signal disposition, which is state shared by every thread of the process",
                 skip_shared_setup ? "[cold start] " : "", pairname, viol_thread, OPS[cur_ops[viol_thread]].name, viol_proc_fn);
        record_violation(sig, cd, det);
        viol_proc_state = 0;
    }
    if (viol_ro_store) {
        snprintf(sig, sizeof(sig), "C18/store-to-shared-readonly-object/%s", OPS[cur_ops[viol_thread]].name);
        snprintf(det, sizeof(det), "%s: thread %d (%s) stored into an object that is only passed as pointer-to-const", pairname, viol_thread, OPS[cur_ops[viol_thread]].name);
        record_violation(sig, cd, det);
        viol_ro_store = 0;
    }
}

static void explore(const int *prefix, int nprefix)
{
    int n, i, alt;
    int saved[MAXPOINTS]; Point sp[MAXPOINTS];
    if (n_exec >= n_exec_cap) { cap_hit = 1; return; }
    if (cold) {
        size_t o = 0; int k;
        cold->running[0] = 0;
        for (k = 0; k < nprefix && o + 8 < sizeof(cold->running); ++k) o += (size_t)snprintf(cold->running + o, sizeof(cold->running) - o, " %d", prefix[k]);
        cold->phase = 2;
    }
    n = run_execution(prefix, nprefix);
    check_execution();
    if (n > 600) { cap_hit = 1; return; }       /* pathological: too many points to branch on */
    memcpy(saved, choices, sizeof(int) * (size_t)n); memcpy(sp, points, sizeof(Point) * (size_t)n);
    for (i = nprefix; i < n; ++i) {
        int cost;
        memcpy(points, sp, sizeof(Point) * (size_t)n);
        cost = preemptions_before(i);
        if (sp[i].running_enabled) cost++;
        if (cost > bound) continue;
        for (alt = 1; alt < sp[i].nenabled; ++alt) {
            int np[MAXPOINTS];
            memcpy(np, saved, sizeof(int) * (size_t)i);
            np[i] = alt;
            explore(np, i + 1);
            if (g_cnt.violations > 50) return;
        }
    }
}

static int compute_W(void)
{
    size_t i; int added = 0;
    for (i = 0; i < GT_SIZE; ++i) if (gtab[i].g) {
        uint8_t all = gtab[i].rd | gtab[i].wr;
        int multi = (all & (all - 1)) != 0;
        if (gtab[i].wr && multi && !in_W(gtab[i].g) && nW < 4096) { W[nW++] = gtab[i].g; ++added; }
    }
    return added;
}

static void run_combo(int n, const int *ops)
{
    int t, rounds = 0; size_t o = 0;
    nthr = n; noutcomes = 0;
    for (t = 0; t < n; ++t) { cur_ops[t] = ops[t]; o += (size_t)snprintf(pairname + o, sizeof(pairname) - o, "%s%s", t ? " || " : "", OPS[ops[t]].name); }
    /* sequential digest per slot: run threads one after the other (default schedule) */
    nthr = n; for (t = 0; t < n; ++t) cur_ops[t] = ops[t];
    nW = 0; memset(gtab, 0, sizeof(gtab)); mode = MODE_DISCOVER;
    viol_global_store = viol_ro_store = 0; viol_proc_state = 0;
    run_execution(NULL, 0);
    for (t = 0; t < n; ++t) seq_digest[t] = ctxs[t].digest;   /* threads ran strictly one after another */
    check_execution();
    while (compute_W() > 0 && rounds++ < 6) {
        mode = MODE_EXPLORE;
        explore(NULL, 0);
        if (g_cnt.violations > 50) break;
    }
    if (!control_mode) total_conflict_granules += (uint64_t)nW;
    if (noutcomes > 1 && !control_mode) ++multi_outcome;
    if (!control_mode) { ++total_combos; distinct_add_u64(fnv1a(pairname, strlen(pairname), 18)); }
}

static void run_combo_cold(int n, const int *ops)
{
    pid_t pid; int status = 0, t, anyshared = 0, i;
    for (t = 0; t < n; ++t) anyshared |= OPS[ops[t]].uses_shared;
    if (anyshared) return;
    memset(cold, 0, sizeof(*cold));
    fflush(stdout);
    pid = fork();
    if (pid < 0) engine_error("fork");
    if (pid == 0) {
        skip_shared_setup = 1;
        n_shared_accesses = n_private_accesses = n_points_total = 0; total_conflict_granules = 0; multi_outcome = 0;
        g_cnt.evaluations = g_cnt.traces = g_cnt.violations = 0;
        run_combo(n, ops);
        cold->evals = g_cnt.evaluations; cold->traces = g_cnt.traces; cold->shared_acc = n_shared_accesses; cold->priv_acc = n_private_accesses;
        cold->points = n_points_total; cold->wtotal = total_conflict_granules; cold->multi = multi_outcome;
        _exit(0);
    }
    waitpid(pid, &status, 0);
    if (!WIFEXITED(status) || WEXITSTATUS(status) != 0) {
        /* hidden global state makes the executions of one process depend on each other, so the replay of a
         * death during the exploration repeats the whole (deterministic) exploration of the combination */
        static char cd[200]; size_t o = (size_t)snprintf(cd, sizeof(cd), cold->phase == 2 ? "c18coldall %d" : "c18cold %d", n);
        for (t = 0; t < n; ++t) o += (size_t)snprintf(cd + o, sizeof(cd) - o, " %d", ops[t]);
        o += (size_t)snprintf(cd + o, sizeof(cd) - o, " :");
        violation("C18/crash-in-cold-start-combination", cd, "the process running this combination died (wait status 0x%x: %s) %s%.600s", status,
                  WIFSIGNALED(status) ? (WTERMSIG(status) == SIGABRT ? "abort, e.g. the C library detected a corrupted heap or a double free" : (WTERMSIG(status) == SIGSEGV ? "segmentation fault" : "signal")) : "non-zero exit",
                  cold->phase == 2 ? "during the exploration, in the execution with choice prefix" : "in its first execution", cold->phase == 2 ? cold->running : "");
        return;
    }
    g_cnt.evaluations += cold->evals; g_cnt.traces += cold->traces; n_shared_accesses += cold->shared_acc; n_private_accesses += cold->priv_acc;
    n_points_total += cold->points; total_conflict_granules += cold->wtotal; multi_outcome += cold->multi; ++total_cold;
    for (i = 0; i < cold->nviol; ++i) violation(cold->sig[i], cold->cd[i], "%s", cold->detail[i]);
}

static void body_all(void)
{
    int a, b, c, job = 0;
    static SharedObjs shared_storage;
    shared_p = &shared_storage;
    for (a = 0; a < MAXT; ++a) { T[a].stack = mmap(NULL, STACK_SZ, PROT_READ | PROT_WRITE, MAP_PRIVATE | MAP_ANONYMOUS, -1, 0); if (T[a].stack == MAP_FAILED) engine_error("mmap stack"); }
    bound = tier_thorough() ? 3 : 2;
    if (g_opts.replay) {
        int n, ops[MAXT], pre[MAXPOINTS], np = 0, t; const char *p = g_opts.replay; char *colon;
        int coldrun = 0;
        if (!strncmp(p, "c18coldall ", 11)) { skip_shared_setup = 1; coldrun = 2; p += 11; }
        else if (!strncmp(p, "c18cold ", 8)) { skip_shared_setup = 1; coldrun = 1; p += 8; }
        else if (!strncmp(p, "c18ns ", 6)) { skip_shared_setup = 1; p += 6; }
        else if (!strncmp(p, "c18 ", 4)) p += 4;
        else engine_error("bad replay");
        n = atoi(p);
        if (n < 1 || n > MAXT) engine_error("bad replay");
        for (t = 0; t < n; ++t) { p = strchr(p, ' '); if (!p) engine_error("bad replay"); ++p; ops[t] = atoi(p); if (ops[t] < 0 || ops[t] > NOPS) engine_error("bad replay op"); }
        colon = strchr(g_opts.replay, ':');
        for (p = colon ? colon + 1 : ""; *p; ) { while (*p == ' ') ++p; if (!*p) break; pre[np++] = atoi(p); while (*p && *p != ' ') ++p; }
        nthr = n; for (t = 0; t < n; ++t) cur_ops[t] = ops[t];
        snprintf(pairname, sizeof(pairname), "replay");
        memset(gtab, 0, sizeof(gtab)); nW = 0;
        if (coldrun == 2) {
            run_combo(n, ops);       /* the whole exploration of the combination, as the cold child ran it */
        } else if (coldrun) {
            /* the violation was seen in the first execution of a fresh process: replay exactly that (this process is fresh too) */
            mode = MODE_DISCOVER;
            run_execution(pre, np);
            for (t = 0; t < n; ++t) seq_digest[t] = ctxs[t].digest;
            check_execution();
        } else {
            mode = MODE_DISCOVER;
            run_execution(NULL, 0); for (t = 0; t < n; ++t) seq_digest[t] = ctxs[t].digest;
            viol_global_store = viol_ro_store = 0;
            compute_W(); mode = MODE_EXPLORE;
            run_execution(pre, np); check_execution();
        }
        return;
    }
    /* positive control: the explorer must find the lost update, otherwise nothing it says is trusted */
    {
        int ops[2]; uint64_t ev = g_cnt.evaluations, tr = g_cnt.traces;
        ops[0] = OP_CONTROL; ops[1] = OP_CONTROL;
        control_mode = 1; skip_shared_setup = 1; run_combo(2, ops); skip_shared_setup = 0; control_mode = 0;   /* no library call before the cold-start phase */
        if (!control_differs || !control_store) engine_error("positive control missed: lost update %sfound, global store %sseen", control_differs ? "" : "not ", control_store ? "" : "not ");
        note_num("control_executions", (double)(g_cnt.evaluations - ev));
        g_cnt.evaluations = ev; g_cnt.traces = tr; n_exec = 0; cap_hit = 0;
    }
    /* (0) cold start: every pair (and the init triple) in a fresh process that has made no library call */
    cold = mmap(NULL, sizeof(ColdRes), PROT_READ | PROT_WRITE, MAP_SHARED | MAP_ANONYMOUS, -1, 0);
    if (cold == MAP_FAILED) engine_error("mmap cold");
    for (a = 0; a < NOPS; ++a) for (b = a; b < NOPS; ++b, ++job) {
        int ops[3]; ops[0] = a; ops[1] = b; ops[2] = 11;
        if (job % g_opts.nshards != g_opts.shard) continue;
        run_combo_cold(2, ops);
        if (a == 11 || b == 11 || (a >= 5 && b <= 10 && tier_thorough())) run_combo_cold(3, ops);
    }
    munmap(cold, sizeof(ColdRes)); cold = NULL;
    note_num("cold_start_combinations", (double)total_cold);
    /* (i) all ordered pairs */
    for (a = 0; a < NOPS; ++a) for (b = 0; b < NOPS; ++b, ++job) {
        int ops[2]; ops[0] = a; ops[1] = b;
        if (job % g_opts.nshards != g_opts.shard) continue;
        run_combo(2, ops);
    }
    /* (ii) triples: shared readers, concurrent inits, CTR life cycles */
    for (a = 0; a < NOPS; ++a) for (b = a; b < NOPS; ++b) for (c = b; c < NOPS; ++c) {
        int ops[3], interesting;
        ops[0] = a; ops[1] = b; ops[2] = c;
        interesting = (OPS[a].uses_shared && OPS[b].uses_shared && OPS[c].uses_shared) || (a == 11 && b == 11) || (a >= 5 && c <= 7) || (b == 11 && c == 11);
        if (!interesting && !tier_thorough()) continue;
        if (!interesting && (a + b + c) % 5 != 0) continue;
        if (job++ % g_opts.nshards != g_opts.shard) continue;
        run_combo(3, ops);
    }
    note_num("conflict_granules_total", (double)total_conflict_granules);
    note_num("combinations", (double)total_combos);
    note_num("combinations_with_more_than_one_outcome", (double)multi_outcome);
    note_num("shared_class_accesses_classified", (double)n_shared_accesses);
    note_num("thread_private_accesses", (double)n_private_accesses);
    note_num("scheduling_points_executed", (double)n_points_total);
    note_num("executions_cap_hit", cap_hit);
    note_num("scheduling_point_cap_hits", (double)n_point_cap_hits);
    if (g_opts.shard == 0) {
        sample_add("pair '%s || %s': discovery execution then exploration of every schedule with <= %d preemptions at accesses to the conflict set", OPS[5].name, OPS[12].name, bound);
        sample_add("triple of shared read-only users: '%s' x3 on one key schedule", OPS[12].name);
    }
}

int main(int argc, char **argv)
{
    parse_opts(argc, argv);
    if (g_opts.replay) {
        /* a replayed schedule may kill the process (that can be the violation): run it in a child */
        pid_t pid; int status = 0;
        fflush(stdout);
        pid = fork();
        if (pid < 0) engine_error("fork");
        if (pid == 0) { body_all(); _exit(finish()); }
        waitpid(pid, &status, 0);
        if (WIFEXITED(status)) return WEXITSTATUS(status);
        violation("C18/crash-in-cold-start-combination", g_opts.replay, "the process replaying this schedule died (wait status 0x%x)", status);
        return finish();
    }
    body_all();
    return finish();
}
