/*
 * Parallel-ECB exploration: C07 (every block count against block-by-block ECB),
 * the parallel half of C06 (back ends in lock step, including invalid calls) and
 * C03 part i through the parallel entry points (round trips).
 */
#include "common.h"
#include "alloc.h"
#include "obj.h"
#include "mc.h"
#include <string.h>
#include <stdlib.h>

#define MAXBLK 8300
static uint8_t KEYS[4][48];     /* 0,1: the key alphabet; 2,3: scratch for the re-key sequences */
static uint8_t in_[MAXBLK * 16 + 64] __attribute__((aligned(32))), out_[3][MAXBLK * 16 + 64] __attribute__((aligned(32))), exp_[MAXBLK * 16 + 64], tw_[MAXBLK * 8 + 64] __attribute__((aligned(32))), tmp_[MAXBLK * 16 + 64] __attribute__((aligned(32)));

typedef struct { Cipher c; int klen, rounds, mode, ki; } KeyCfg;

static int keycfgs(Cipher c, KeyCfg *out)
{
    int n = 0, ki, l, r, m;
    if (c == CK_MANTIS) {
        for (ki = 0; ki < 2; ++ki) for (r = 5; r <= 8; r += (tier_thorough() ? 1 : 3)) for (m = 0; m < 2; ++m) {
            out[n].c = c; out[n].klen = 16; out[n].rounds = r; out[n].mode = m; out[n].ki = ki; ++n;
        }
    } else {
        int bs = cipher_bs(c);
        for (ki = 0; ki < 2; ++ki) for (l = 1; l <= 3; ++l) {
            out[n].c = c; out[n].klen = l * bs; out[n].rounds = 0; out[n].mode = 0; out[n].ki = ki; ++n;
        }
        if (tier_thorough()) {   /* an in-between length through the parallel key setter */
            out[n].c = c; out[n].klen = bs + 3; out[n].rounds = 0; out[n].mode = 0; out[n].ki = 0; ++n;
        }
    }
    return n;
}

static void fill_data(uint8_t *buf, size_t n, int family, int bs)
{
    size_t i;
    switch (family) {
    case 0: lcg_fill(buf, n, 31337 + (uint32_t)g_opts.seed); break;                 /* R1 */
    case 1: for (i = 0; i < n; ++i) buf[i] = (uint8_t)(i / (size_t)bs + 1); break;  /* block index in every byte */
    case 2: memset(buf, 0, n); for (i = 0; i < n; i += (size_t)bs) buf[i + (size_t)bs - 1] = (uint8_t)(i / (size_t)bs); break;
    default: memset(buf, 0xFF, n); for (i = 0; i < n; i += (size_t)bs) buf[i] = (uint8_t)(0x80 + i / (size_t)bs); break;
    }
}

/* per-block tweak arrays (Mantis): random, all zero, big-endian block number from 0, one non-zero
 * tweak late in each group, little-endian block number, all ones after a zero first block */
static void fill_tweaks(uint8_t *tw, int nblk, int tfam, uint32_t seed)
{
    int i; size_t n = (size_t)nblk * 8 + 8;
    switch (tfam % 6) {
    case 0: lcg_fill(tw, n, seed); break;
    case 1: memset(tw, 0, n); break;
    case 2: memset(tw, 0, n); for (i = 0; i <= nblk; ++i) { tw[i * 8 + 7] = (uint8_t)i; tw[i * 8 + 6] = (uint8_t)(i >> 8); } break;
    case 3: memset(tw, 0, n); for (i = 0; i <= nblk; ++i) if (i % 8 == 5 || i == nblk - 1) tw[i * 8 + 7] = (uint8_t)(1 + i / 8); break;
    case 4: memset(tw, 0, n); for (i = 0; i <= nblk; ++i) tw[i * 8] = (uint8_t)i; break;
    default: memset(tw, 0xFF, n); memset(tw, 0, 8); break;
    }
}

/* block-by-block oracle through the single-block public functions */
static void single_blocks(const KeyCfg *k, int dir, const uint8_t *in, const uint8_t *tw, uint8_t *out, int nblk)
{
    int i, bs = cipher_bs(k->c);
    const uint8_t *key = KEYS[k->ki];
    if (k->c == CK_S128) {
        Skinny128Key_t ks;
        if (skinny128_set_key(&ks, key, (unsigned)k->klen) != 1) engine_error("oracle set_key failed");
        for (i = 0; i < nblk; ++i)
            if (dir) skinny128_ecb_decrypt(out + i * bs, in + i * bs, &ks); else skinny128_ecb_encrypt(out + i * bs, in + i * bs, &ks);
    } else if (k->c == CK_S64) {
        Skinny64Key_t ks;
        if (skinny64_set_key(&ks, key, (unsigned)k->klen) != 1) engine_error("oracle set_key failed");
        for (i = 0; i < nblk; ++i)
            if (dir) skinny64_ecb_decrypt(out + i * bs, in + i * bs, &ks); else skinny64_ecb_encrypt(out + i * bs, in + i * bs, &ks);
    } else {
        MantisKey_t ks;
        if (mantis_set_key(&ks, key, 16, (unsigned)k->rounds, k->mode ? MANTIS_DECRYPT : MANTIS_ENCRYPT) != 1) engine_error("oracle set_key failed");
        for (i = 0; i < nblk; ++i) {
            if (mantis_set_tweak(&ks, tw + i * 8, 8) != 1) engine_error("oracle set_tweak failed");
            mantis_ecb_crypt(out + i * bs, in + i * bs, &ks);
        }
    }
}

static void kdesc(const KeyCfg *k, char *buf, size_t n)
{
    if (k->c == CK_MANTIS) snprintf(buf, n, "mantis K%d rounds=%d mode=%s", k->ki, k->rounds, k->mode ? "dec" : "enc");
    else snprintf(buf, n, "%s K%d klen=%d", cipher_name(k->c), k->ki, k->klen);
}

/* one C07 case; returns 0 when it held */
static void c07_case(const KeyCfg *k, int be, int nblk, int dir, int family, int inplace)
{
    ParObj o;
    int bs = cipher_bs(k->c), r, rk;
    size_t n = (size_t)nblk * (size_t)bs;
    char cd[200], kd[100], sig[160];
    arena_reset();
    memset(&o, 0, sizeof(o));
    ++g_cnt.evaluations;
    snprintf(cd, sizeof(cd), "c07 %d %d %d %d %d %d %d %d %d %d", (int)k->c, k->klen, k->rounds, k->mode, k->ki, be, nblk, dir, family, inplace);
    kdesc(k, kd, sizeof(kd));
    if (par_init(k->c, be, &o) == 0) { violation("C07/init-failed", cd, "init returned 0"); return; }
    if (par_backend(k->c, &o) < 0) {   /* not one of the library's function tables (nor NULL): init left the field unassigned */
        snprintf(sig, sizeof(sig), "C07/%s/init-left-unknown-vtable", cipher_name(k->c));
        violation(sig, cd, "after init on a painted object with back end %s available, the object's function table is neither NULL nor one of the library's", be_name(be));
        return;
    }
    if (par_backend(k->c, &o) != be) engine_error("parallel pinning failed: wanted %s got %d", be_name(be), par_backend(k->c, &o));
    if ((int)o.raw.parallel_size != par_batch(k->c, be) || o.raw.parallel_size == 0 || o.raw.parallel_size % (size_t)bs) {
        snprintf(sig, sizeof(sig), "C07/%s/parallel_size", cipher_name(k->c));
        violation(sig, cd, "parallel_size=%zu on back end %s (expected %d, a positive multiple of %d)", o.raw.parallel_size, be_name(be), par_batch(k->c, be), bs);
    }
    rk = par_set_key(k->c, &o, KEYS[k->ki], (unsigned)k->klen, (unsigned)k->rounds, k->mode ? MANTIS_DECRYPT : MANTIS_ENCRYPT);
    if (rk != 1) { violation("C07/set_key-rejected", cd, "%s: set_key returned %d", kd, rk); par_cleanup(k->c, &o); return; }
    {
    /* placement: the first data family runs on 32-byte aligned buffers, the others on buffers whose
     * offsets from such a boundary walk through 1..15 with the case parameters (C09 is the check
     * for alignment as such; this only keeps C07 from assuming one placement) */
    size_t ioff = family ? (size_t)((nblk * 7 + family * 3 + dir) & 15) : 0, ooff = family ? (size_t)((nblk * 5 + family + 2 * dir + 1) & 15) : 0,
           toff = family ? (size_t)((nblk + family) & 7) : 0;
    uint8_t *in = in_ + ioff, *out = out_[0] + ooff, *tw = tw_ + toff;
    /* the second data family has its pure inputs end where readable memory ends (and the third, begin there): the
     * input when it is not also the output, and the per-block tweak array, each exactly as long as the call says */
    if (family == 1 || family == 2) {
        size_t tn = k->c == CK_MANTIS ? (size_t)nblk * 8 : 1;
        if (!inplace && n) in = family == 1 ? guard_tail(0, n) : guard_head(0, n);
        tw = family == 1 ? guard_tail(1, tn) : guard_head(1, tn);
    }
    fill_data(in, n, family, bs);
    if (tw != tw_ + toff) { fill_tweaks(tw_, nblk, family + nblk, 555 + (uint32_t)family); memcpy(tw, tw_, k->c == CK_MANTIS ? (size_t)nblk * 8 : 1); }
    else fill_tweaks(tw, nblk, family + nblk, 555 + (uint32_t)family);
    single_blocks(k, dir, in, tw, exp_, nblk);
    memset(out_[0], 0xEE, n + 48);
    {
        static uint8_t img1[2048], img2[2048]; size_t l1 = par_image(k->c, &o, img1, sizeof(img1)), l2;
        int ro = family == 1 || family == 2;     /* (their guarded inputs are read-only during the call) */
        if (inplace) memcpy(out, in, n);
        if (ro) { if (!inplace && n) guard_readonly(0, 1); guard_readonly(1, 1); }
        if (inplace) r = par_crypt(k->c, &o, out, out, tw, n, dir);
        else r = par_crypt(k->c, &o, out, in, tw, n, dir);
        if (ro) { guard_readonly(0, 0); guard_readonly(1, 0); }
        l2 = par_image(k->c, &o, img2, sizeof(img2));
        if (l1 != l2 || memcmp(img1, img2, l1) != 0) {   /* the object is a const argument of the data calls */
            snprintf(sig, sizeof(sig), "C07/%s/%s/data-call-changed-object", cipher_name(k->c), be_name(be));
            violation(sig, cd, "%s on %s, %d blocks: the parallel object (handle + context) changed during the call", kd, be_name(be), nblk);
        }
    }
    out_digest("parallel-output", out, n); out_digest("parallel-return", &r, sizeof(r));
    if (nblk > 0 && memcmp(out, in, n) != 0) distinct_add_u64(fnv1a(out, n, fnv1a(cd, strlen(cd), FNV_INIT)));
    if (r != 1) {
        snprintf(sig, sizeof(sig), "C07/%s/%s/return-value", cipher_name(k->c), be_name(be));
        violation(sig, cd, "%s, %d blocks: returned %d", kd, nblk, r);
    } else if (memcmp(out, exp_, n) != 0) {
        size_t d = 0; while (d < n && out[d] == exp_[d]) ++d;
        snprintf(sig, sizeof(sig), "C07/%s/%s/%s", cipher_name(k->c), be_name(be), dir ? "decrypt" : "encrypt");
        violation(sig, cd, "%s on %s, %d blocks%s (input at +%zu, output at +%zu from a 32-byte boundary): differs from block-by-block at byte %zu (block %zu): got %02x expected %02x",
                  kd, be_name(be), nblk, inplace ? " in-place" : "", inplace ? ooff : ioff, ooff, d, d / (size_t)bs, out[d], exp_[d]);
    } else if (!inplace && (out[n] != 0xEE || out[n + 7] != 0xEE || (ooff && out[-1] != 0xEE))) {
        snprintf(sig, sizeof(sig), "C07/%s/%s/overrun", cipher_name(k->c), be_name(be));
        violation(sig, cd, "wrote outside the output");
    }
    }
    par_cleanup(k->c, &o);
}

/* BYTE sweep through one full batch: every byte value at every position of a lane.
 * The object is set up once; each case is one batch call compared block by block. */
static void c07_sweep(const KeyCfg *k, int be, int dir)
{
    ParObj o;
    int bs = cipher_bs(k->c), P = par_batch(k->c, be) / bs, lane, pos, v;
    size_t n = (size_t)P * (size_t)bs;
    char cd[200], sig[160], kd[100], sb[96];
    snprintf(cd, sizeof(cd), "c07s %d %d %d %d %d %d %d", (int)k->c, k->klen, k->rounds, k->mode, k->ki, be, dir);
    snprintf(sb, sizeof(sb), "C07/%s/%s", cipher_name(k->c), be_name(be));
    if (guard_enter(sb, cd)) return;
    arena_reset();
    memset(&o, 0, sizeof(o));
    kdesc(k, kd, sizeof(kd));
    if (!par_init(k->c, be, &o) ||
        par_set_key(k->c, &o, KEYS[k->ki], (unsigned)k->klen, (unsigned)k->rounds, k->mode ? MANTIS_DECRYPT : MANTIS_ENCRYPT) != 1) {
        violation("C07/init-or-set_key-failed", cd, "%s", kd); guard_leave(); return;
    }
    lcg_fill(tw_, n, 4321);
    for (lane = 0; lane < P; ++lane) {
        if (!tier_thorough() && !(lane == 0 || lane == P - 1 || lane == P / 2)) continue;
        for (pos = 0; pos < bs; ++pos) {
            lcg_fill(in_, n, 9000 + (uint32_t)lane);
            for (v = 0; v < 256; ++v) {
                int r;
                in_[lane * bs + pos] = (uint8_t)v;
                if (k->c == CK_MANTIS && (v & 1)) tw_[lane * 8 + (pos & 7)] = (uint8_t)(v * 7);
                single_blocks(k, dir, in_, tw_, exp_, P);
                r = par_crypt(k->c, &o, out_[0], in_, tw_, n, dir);
                ++g_cnt.evaluations;
                distinct_add_u64(fnv1a(out_[0], n, 11));
                if (r != 1 || memcmp(out_[0], exp_, n) != 0) {
                    size_t d = 0; while (d < n && out_[0][d] == exp_[d]) ++d;
                    snprintf(sig, sizeof(sig), "C07/%s/%s/%s", cipher_name(k->c), be_name(be), dir ? "decrypt" : "encrypt");
                    violation(sig, cd, "%s on %s, full batch, lane %d byte %d = %02x: differs from block-by-block at byte %zu (return %d)",
                              kd, be_name(be), lane, pos, v, d, r);
                    par_cleanup(k->c, &o); guard_leave(); return;
                }
            }
        }
    }
    par_cleanup(k->c, &o);
    guard_leave();
}

static void c07_case_g(const KeyCfg *k, int be, int nblk, int dir, int family, int inplace)
{
    char cd[200], sb[96];
    snprintf(cd, sizeof(cd), "c07 %d %d %d %d %d %d %d %d %d %d", (int)k->c, k->klen, k->rounds, k->mode, k->ki, be, nblk, dir, family, inplace);
    snprintf(sb, sizeof(sb), "C07/%s/%s", cipher_name(k->c), be_name(be));
    if (guard_enter(sb, cd)) return;
    c07_case(k, be, nblk, dir, family, inplace);
    guard_leave();
}

static void c07_bad_size(const KeyCfg *k, int be, int nbytes, int dir)
{
    ParObj o; int r; char cd[200], sig[160];
    arena_reset();
    memset(&o, 0, sizeof(o));
    ++g_cnt.evaluations;
    snprintf(cd, sizeof(cd), "c07b %d %d %d %d %d %d %d %d", (int)k->c, k->klen, k->rounds, k->mode, k->ki, be, nbytes, dir);
    if (par_init(k->c, be, &o) == 0) return;
    par_set_key(k->c, &o, KEYS[k->ki], (unsigned)k->klen, (unsigned)k->rounds, MANTIS_ENCRYPT);
    fill_data(in_, (size_t)nbytes, 0, cipher_bs(k->c));
    memset(out_[0], 0xEE, (size_t)nbytes + 8);
    r = par_crypt(k->c, &o, out_[0], in_, tw_, (size_t)nbytes, dir);
    if (r != 0) {
        snprintf(sig, sizeof(sig), "C07/%s/%s/partial-block-size-accepted", cipher_name(k->c), be_name(be));
        violation(sig, cd, "byte count %d is not a whole number of blocks but the call returned %d", nbytes, r);
    } else {
        int i; for (i = 0; i < nbytes; ++i) if (out_[0][i] != 0xEE) {
            snprintf(sig, sizeof(sig), "C07/%s/%s/rejected-call-wrote-output", cipher_name(k->c), be_name(be));
            violation(sig, cd, "rejected call modified the output buffer at byte %d", i); break;
        }
    }
    distinct_add_u64(fnv1a(cd, strlen(cd), 99));
    par_cleanup(k->c, &o);
}

/* Re-keying one object (one case): see run_c07 */
static void c07_rekey(int c, int be, int a, int b2, int rel)
{
    int bs = cipher_bs((Cipher)c), nb = par_batch((Cipher)c, be) / bs + 3;
    ParObj o; KeyCfg k1, k2; int step, d2; char cd[160], sig[160]; size_t n = (size_t)nb * (size_t)bs;
    memset(&k1, 0, sizeof(k1)); memset(&k2, 0, sizeof(k2));
    k1.c = k2.c = (Cipher)c; k1.ki = 2; k2.ki = 3;
    if (c == CK_MANTIS) { k1.klen = k2.klen = 16; k1.rounds = (a & 1) ? 8 : 5; k1.mode = a >> 1; k2.rounds = (b2 & 1) ? 8 : 5; k2.mode = b2 >> 1; if (rel == 2) return; }
    else { k1.klen = (a + 1) * bs; k2.klen = (b2 + 1) * bs; k1.rounds = k2.rounds = 5; }
    lcg_fill(KEYS[2], 48, 5100);
    if (rel == 0) lcg_fill(KEYS[3], 48, 5101);
    else if (rel == 1) memcpy(KEYS[3], KEYS[2], 48);
    else { memcpy(KEYS[3], KEYS[2], 48); memset(KEYS[3] + k1.klen, 0, (size_t)(48 - k1.klen)); }
    arena_reset(); memset(&o, 0, sizeof(o));
    snprintf(cd, sizeof(cd), "c07rekey %d %d %d %d %d", c, be, a, b2, rel);
    if (guard_enter("C07/rekey", cd)) return;
    if (!par_init((Cipher)c, be, &o)) engine_error("c07 rekey: init failed");
    for (step = 0; step < 2; ++step) {
        const KeyCfg *k = step ? &k2 : &k1;
        int rk = par_set_key((Cipher)c, &o, KEYS[k->ki], (unsigned)k->klen, (unsigned)k->rounds, k->mode ? MANTIS_DECRYPT : MANTIS_ENCRYPT);
        for (d2 = 0; d2 < (c == CK_MANTIS ? 1 : 2); ++d2) {
            int r;
            fill_data(in_, n, 1 + step, bs); fill_tweaks(tw_, nb, step + a, 5200);
            single_blocks(k, d2, in_, tw_, exp_, nb);
            memset(out_[0], 0xEE, n + 16);
            r = par_crypt((Cipher)c, &o, out_[0], in_, tw_, n, d2);
            ++g_cnt.evaluations;
            if (rk != 1 || r != 1 || memcmp(out_[0], exp_, n) != 0) {
                size_t d = 0; while (d < n && out_[0][d] == exp_[d]) ++d;
                snprintf(sig, sizeof(sig), "C07/%s/%s/after-%s", cipher_name((Cipher)c), be_name(be), step ? "re-key" : "first-key");
                violation(sig, cd, "set_key #%d (len %d rounds %d mode %d, %s) returned %d; %s of %d blocks returned %d and differs from the single-block functions under that key at byte %zu",
                          step + 1, k->klen, k->rounds, k->mode, rel == 0 ? "unrelated key" : (rel == 1 ? "same key bytes" : "first key followed by zeros"), rk,
                          d2 ? "decrypt" : "encrypt", nb, r, d);
                step = 2; break;
            }
        }
    }
    distinct_add_u64(fnv1a(cd, strlen(cd), 107));
    par_cleanup((Cipher)c, &o);
    guard_leave();
}

static void run_c07(void)
{
    int c, ki, nk, be, nblk, dir, fam, ip, job = 0;
    KeyCfg kc[64];
    if (g_opts.replay) {
        KeyCfg k; int cc, f, b, n, d, i2;
        g_opts.nshards = 1; g_opts.shard = 0;
        if (sscanf(g_opts.replay, "c07 %d %d %d %d %d %d %d %d %d %d", &cc, &k.klen, &k.rounds, &k.mode, &k.ki, &b, &n, &d, &f, &i2) == 10) {
            k.c = (Cipher)cc; c07_case_g(&k, b, n, d, f, i2);
        } else if (sscanf(g_opts.replay, "c07rekey %d %d %d %d %d", &cc, &b, &n, &d, &f) == 5) {
            c07_rekey(cc, b, n, d, f);
        } else if (sscanf(g_opts.replay, "c07s %d %d %d %d %d %d %d", &cc, &k.klen, &k.rounds, &k.mode, &k.ki, &b, &d) == 7) {
            k.c = (Cipher)cc; c07_sweep(&k, b, d);
        } else if (sscanf(g_opts.replay, "c07b %d %d %d %d %d %d %d %d", &cc, &k.klen, &k.rounds, &k.mode, &k.ki, &b, &n, &d) == 8) {
            k.c = (Cipher)cc; c07_bad_size(&k, b, n, d);
        } else engine_error("bad replay");
        return;
    }
    for (c = 0; c < 3; ++c) {
        int bs = cipher_bs((Cipher)c);
        int maxP = 8;   /* widest batch in blocks: 8 for every cipher */
        nk = keycfgs((Cipher)c, kc);
        for (ki = 0; ki < nk; ++ki)
            for (be = 0; be <= cipher_max_be((Cipher)c); ++be, ++job) {
                if (job % g_opts.nshards != g_opts.shard) continue;
                for (nblk = 0; nblk <= 3 * maxP + 1; ++nblk)
                    for (dir = 0; dir < (c == CK_MANTIS ? 1 : 2); ++dir)
                        for (fam = 0; fam < (tier_thorough() ? 4 : 2); ++fam)
                            for (ip = 0; ip < 2; ++ip)
                                c07_case_g(&kc[ki], be, nblk, dir, fam, ip);
                /* every count up to nine batches (an unrolled or pipelined loop shows from its 4th..8th iteration on), one family each */
                for (nblk = 3 * maxP + 2; nblk <= 9 * maxP; ++nblk)
                    for (dir = 0; dir < (c == CK_MANTIS ? 1 : 2); ++dir) c07_case_g(&kc[ki], be, nblk, dir, 1 + (nblk & 1), (nblk >> 1) & 1);
                for (dir = 0; dir < (c == CK_MANTIS ? 1 : 2); ++dir) c07_sweep(&kc[ki], be, dir);
                {   /* larger counts: many batch iterations plus a remainder */
                    static const int big[] = {31, 32, 33, 63, 64, 65, 127, 128, 129, 255, 256, 257, 1025, 4097, 8193};   /* the last two cross 2^16 bytes */
                    size_t bi;
                    for (bi = 0; bi < sizeof(big) / sizeof(big[0]); ++bi)
                        for (dir = 0; dir < (c == CK_MANTIS ? 1 : 2); ++dir) c07_case_g(&kc[ki], be, big[bi], dir, (int)(bi & 1), (int)(bi & 1) ^ 1);
                }
                {
                    static const int bad[] = {1, -1, +1, 0};  /* 1, B-1, B+1, P*B+1 */
                    int sizes[4], i;
                    sizes[0] = 1; sizes[1] = bs - 1; sizes[2] = bs + 1; sizes[3] = par_batch((Cipher)c, be) + 1;
                    (void)bad;
                    for (i = 0; i < 4; ++i) for (dir = 0; dir < 2; ++dir) c07_bad_size(&kc[ki], be, sizes[i], dir);
                }
                if (job < 6) {
                    char kd[100]; kdesc(&kc[ki], kd, sizeof(kd));
                    sample_add("%s on %s: block counts 0..%d x {enc,dec} x data families x {in-place, out-of-place} vs single-block calls", kd, be_name(be), 3 * maxP + 1);
                }
            }
    }
    /* Re-keying one object: every ordered pair of key configurations on the same parallel object, with
     * unrelated key bytes, the same bytes at another length, and the first key followed by zeros (Mantis:
     * every pair of (rounds, mode) with the same and with another key); after each set_key one batch plus
     * three blocks is compared with the single-block functions under the key that is now in force. */
    for (c = 0; c < 3; ++c) for (be = 0; be <= cipher_max_be((Cipher)c); ++be) {
        int a, b2, rel, na = c == CK_MANTIS ? 4 : 3;
        if ((job++) % g_opts.nshards != g_opts.shard) continue;
        for (a = 0; a < na; ++a) for (b2 = 0; b2 < na; ++b2) for (rel = 0; rel < 3; ++rel) c07_rekey(c, be, a, b2, rel);
    }
}

/* ---------------- C06 parallel part: back ends in lock step ---------------- */

static void run_c06p(void)
{
    int c, ki, nk, nblk, dir, fam, job = 0, b;
    KeyCfg kc[64];
    char cd[200], sig[160], kd[100];
    for (c = 0; c < 3; ++c) {
        int bs = cipher_bs((Cipher)c), nbe = cipher_max_be((Cipher)c) + 1;
        nk = keycfgs((Cipher)c, kc);
        for (ki = 0; ki < nk; ++ki, ++job) {
            ParObj o[3]; int r[3], rk[3];
            if (job % g_opts.nshards != g_opts.shard) continue;
            kdesc(&kc[ki], kd, sizeof(kd));
            for (nblk = 0; nblk <= 25; ++nblk) for (dir = 0; dir < (c == CK_MANTIS ? 1 : 2); ++dir) for (fam = 0; fam < 2; ++fam) {
                /* sizes: whole blocks, plus invalid sizes nblk*bs+1 and nblk*bs-1 */
                int variant;
                for (variant = 0; variant < 4; ++variant) {   /* variant 3: whole blocks, output buffer == input buffer (round 16) */
                    long nbytes = (long)nblk * bs + (variant == 1 ? 1 : (variant == 2 ? -1 : 0));
                    if (nbytes < 0) continue;
                    arena_reset();
                    ++g_cnt.evaluations;
                    snprintf(cd, sizeof(cd), "c06p %d %d %d %ld %d %d%s", c, ki, nblk, nbytes, dir, fam, variant == 3 ? " in-place" : "");
                    fill_data(in_, (size_t)nbytes + 16, fam, bs);
                    fill_tweaks(tw_, nblk + 1, fam + nblk, 555 + (uint32_t)fam);
                    for (b = 0; b < nbe; ++b) {
                        memset(&o[b], 0, sizeof(o[b]));
                        if (!par_init((Cipher)c, b, &o[b])) engine_error("init failed");
                        rk[b] = par_set_key((Cipher)c, &o[b], KEYS[kc[ki].ki], (unsigned)kc[ki].klen, (unsigned)kc[ki].rounds, kc[ki].mode ? MANTIS_DECRYPT : MANTIS_ENCRYPT);
                        memset(out_[b], 0xEE, (size_t)nbytes + 16);
                        if (variant == 3) memcpy(out_[b], in_, (size_t)nbytes);
                        r[b] = par_crypt((Cipher)c, &o[b], out_[b], variant == 3 ? out_[b] : in_, tw_, (size_t)nbytes, dir);
                    }
                    distinct_add_u64(fnv1a(out_[0], (size_t)nbytes, fnv1a(cd, strlen(cd), 5)));
                    for (b = 1; b < nbe; ++b) {
                        if (rk[b] != rk[0] || r[b] != r[0]) {
                            snprintf(sig, sizeof(sig), "C06/par/%s/backend-return", cipher_name((Cipher)c));
                            violation(sig, cd, "%s, %ld bytes: return values differ: %s set_key=%d crypt=%d, %s set_key=%d crypt=%d",
                                      kd, nbytes, be_name(0), rk[0], r[0], be_name(b), rk[b], r[b]);
                        } else if (memcmp(out_[b], out_[0], (size_t)nbytes + 16) != 0) {
                            size_t d = 0; while (out_[b][d] == out_[0][d]) ++d;
                            snprintf(sig, sizeof(sig), "C06/par/%s/backend-output", cipher_name((Cipher)c));
                            violation(sig, cd, "%s, %ld bytes %s: %s and %s differ at byte %zu: %02x vs %02x", kd, nbytes, dir ? "dec" : "enc",
                                      be_name(b), be_name(0), d, out_[b][d], out_[0][d]);
                        }
                    }
                    for (b = 0; b < nbe; ++b) par_cleanup((Cipher)c, &o[b]);
                }
            }
            /* invalid / unkeyed / cleaned-up objects: same answers on every back end */
            {
                int scen;
                for (scen = 0; scen < 5; ++scen) {
                    arena_reset();
                    ++g_cnt.evaluations;
                    snprintf(cd, sizeof(cd), "c06p-scen %d %d %d", c, ki, scen);
                    for (b = 0; b < nbe; ++b) {
                        memset(&o[b], 0, sizeof(o[b]));
                        memset(out_[b], 0xEE, 64);
                        fill_data(in_, 64, 0, bs);
                        switch (scen) {
                        case 0: /* zeroed handle, never initialised */
                            r[b] = par_crypt((Cipher)c, &o[b], out_[b], in_, tw_, (size_t)bs, 0); break;
                        case 1: /* initialised, never keyed */
                            par_init((Cipher)c, b, &o[b]); r[b] = par_crypt((Cipher)c, &o[b], out_[b], in_, tw_, (size_t)bs * 9, 0); break;
                        case 2: /* cleaned up */
                            par_init((Cipher)c, b, &o[b]); par_set_key((Cipher)c, &o[b], KEYS[0], (unsigned)kc[ki].klen, (unsigned)kc[ki].rounds, MANTIS_ENCRYPT);
                            par_cleanup((Cipher)c, &o[b]); r[b] = par_crypt((Cipher)c, &o[b], out_[b], in_, tw_, (size_t)bs, 0); break;
                        case 3: /* rejected key, then data */
                            par_init((Cipher)c, b, &o[b]); r[b] = 10 * par_set_key((Cipher)c, &o[b], KEYS[0], (unsigned)bs - 1, 4, MANTIS_ENCRYPT);
                            r[b] += par_crypt((Cipher)c, &o[b], out_[b], in_, tw_, (size_t)bs * 2, 0); break;
                        default: /* null object */
                            r[b] = par_crypt((Cipher)c, NULL, out_[b], in_, tw_, (size_t)bs, 0); break;
                        }
                    }
                    for (b = 1; b < nbe; ++b)
                        if (r[b] != r[0] || memcmp(out_[b], out_[0], 64) != 0) {
                            snprintf(sig, sizeof(sig), "C06/par/%s/backend-special-case", cipher_name((Cipher)c));
                            violation(sig, cd, "scenario %d: %s returned %d, %s returned %d (or outputs differ)", scen, be_name(0), r[0], be_name(b), r[b]);
                        }
                    for (b = 0; b < nbe; ++b) par_cleanup((Cipher)c, &o[b]);
                }
            }
            if (job < 4) sample_add("%s: byte counts 0..25 blocks (+1/-1) x {enc,dec} x 2 data families on %d back ends in lock step", kd, nbe);
        }
    }
}

/* ---------------- C03 part i through the parallel entry points ---------------- */

static void run_c03p(void)
{
    int c, ki, nk, be, ci, fam, job = 0;
    KeyCfg kc[64];
    char cd[200], sig[160], kd[100];
    for (c = 0; c < 3; ++c) {
        int bs = cipher_bs((Cipher)c);
        nk = keycfgs((Cipher)c, kc);
        for (ki = 0; ki < nk; ++ki) for (be = 0; be <= cipher_max_be((Cipher)c); ++be, ++job) {
            int P = par_batch((Cipher)c, be) / bs;
            int counts[12], ncounts = 0;
            if (job % g_opts.nshards != g_opts.shard) continue;
            counts[ncounts++] = 1; counts[ncounts++] = P - 1; counts[ncounts++] = P; counts[ncounts++] = P + 1; counts[ncounts++] = 2 * P + 1; counts[ncounts++] = P + P / 2 + 1;
            counts[ncounts++] = 9 * P + 1;     /* more than eight batches and a block (an unrolled dispatch loop has a remainder) */
            if (tier_thorough()) { counts[ncounts++] = 2; counts[ncounts++] = 3 * P; counts[ncounts++] = 3 * P + 1; }
            kdesc(&kc[ki], kd, sizeof(kd));
            for (ci = 0; ci < ncounts; ++ci) for (fam = 0; fam < 4; ++fam) {
                ParObj e, d; size_t n = (size_t)counts[ci] * (size_t)bs; int order;
                for (order = 0; order < 2; ++order) {   /* 0: D(E(x)) = x, 1: E(D(y)) = y */
                    int r1, r2;
                    arena_reset();
                    ++g_cnt.evaluations;
                    memset(&e, 0, sizeof(e)); memset(&d, 0, sizeof(d));
                    snprintf(cd, sizeof(cd), "c03p %d %d %d %d %d %d", c, ki, be, counts[ci], fam, order);
                    fill_data(in_, n, fam, bs);
                    fill_tweaks(tw_, (int)(n / 8), fam + (int)(n / 8), 777 + (uint32_t)fam);
                    par_init((Cipher)c, be, &e); par_init((Cipher)c, be, &d);
                    par_set_key((Cipher)c, &e, KEYS[kc[ki].ki], (unsigned)kc[ki].klen, (unsigned)kc[ki].rounds, MANTIS_ENCRYPT);
                    par_set_key((Cipher)c, &d, KEYS[kc[ki].ki], (unsigned)kc[ki].klen, (unsigned)kc[ki].rounds, MANTIS_DECRYPT);
                    if (order == 0) { r1 = par_crypt((Cipher)c, &e, tmp_, in_, tw_, n, 0); r2 = par_crypt((Cipher)c, &d, out_[0], tmp_, tw_, n, 1); }
                    else            { r1 = par_crypt((Cipher)c, &d, tmp_, in_, tw_, n, 1); r2 = par_crypt((Cipher)c, &e, out_[0], tmp_, tw_, n, 0); }
                    {   /* the same round trip in place (output == input), as the documentation allows */
                        int q1, q2;
                        memcpy(out_[2], in_, n);
                        q1 = par_crypt((Cipher)c, order ? &d : &e, out_[2], out_[2], tw_, n, order);
                        q2 = par_crypt((Cipher)c, order ? &e : &d, out_[2], out_[2], tw_, n, !order);
                        ++g_cnt.evaluations;
                        if (q1 != 1 || q2 != 1 || memcmp(out_[2], in_, n) != 0) {
                            snprintf(sig, sizeof(sig), "C03/par/%s/%s/%s-in-place", cipher_name((Cipher)c), be_name(be), order ? "E(D(y))" : "D(E(x))");
                            violation(sig, cd, "%s on %s, %d blocks: in-place round trip failed (returns %d,%d)", kd, be_name(be), counts[ci], q1, q2);
                        }
                    }
                    if (memcmp(tmp_, in_, n) != 0) distinct_add_u64(fnv1a(tmp_, n, fnv1a(cd, strlen(cd), 3)));
                    if (r1 != 1 || r2 != 1 || memcmp(out_[0], in_, n) != 0) {
                        snprintf(sig, sizeof(sig), "C03/par/%s/%s/%s", cipher_name((Cipher)c), be_name(be), order ? "E(D(y))" : "D(E(x))");
                        violation(sig, cd, "%s on %s, %d blocks: round trip failed (returns %d,%d)", kd, be_name(be), counts[ci], r1, r2);
                    }
                    /* Mantis: swapping the mode of the encrypting object must give the decrypting object's behaviour */
                    if (c == CK_MANTIS && order == 0) {
                        par_swap_modes(&e);
                        par_crypt((Cipher)c, &e, out_[1], tmp_, tw_, n, 0);
                        if (memcmp(out_[1], in_, n) != 0) {
                            snprintf(sig, sizeof(sig), "C03/par/mantis/%s/swap_modes", be_name(be));
                            violation(sig, cd, "%s: parallel swap_modes did not turn the object into the inverse", kd);
                        }
                        par_swap_modes(&e);
                        par_crypt((Cipher)c, &e, out_[1], in_, tw_, n, 0);
                        if (memcmp(out_[1], tmp_, n) != 0) {
                            snprintf(sig, sizeof(sig), "C03/par/mantis/%s/swap_modes-twice", be_name(be));
                            violation(sig, cd, "%s: swapping twice did not restore the object", kd);
                        }
                    }
                    par_cleanup((Cipher)c, &e); par_cleanup((Cipher)c, &d);
                }
            }
            if (job < 3) sample_add("%s on %s: D(E(x)) and E(D(y)) for block counts {1,P-1,P,P+1,2P+1} x 4 data families", kd, be_name(be));
        }
    }
}

static void body(void)
{
    int i;
    if (ref_selftest() != 0) engine_error("reference self-test failed");
    if (g_opts.replay && strcmp(g_opts.sub, "c07") != 0) { g_opts.nshards = 1; g_opts.shard = 0; g_opts.replay = NULL; }
    lcg_fill(KEYS[0], 48, 4242 + (uint32_t)g_opts.seed);
    for (i = 0; i < 48; ++i) KEYS[1][i] = (uint8_t)(0xFF - 5 * i);
    if (!strcmp(g_opts.sub, "c07")) run_c07();
    else if (!strcmp(g_opts.sub, "c06p")) run_c06p();
    else if (!strcmp(g_opts.sub, "c03p")) run_c03p();
    else engine_error("unknown sub %s", g_opts.sub);
}

int main(int argc, char **argv)
{
    parse_opts(argc, argv);
    g_obj_args_copy = 1;    /* every key, tweak and counter buffer of this harness is at least as long as the length passed with it */
    run_prelude();
    if (!g_opts.sub) engine_error("--sub required");
    return mc_guarded_main(body);
}
