/*
 * apimc: explicit-state exploration of API histories on the real objects.
 * A state is an operation history; it is materialised by replaying the history on
 * a fresh world.  BFS over the kind's alphabet, states merged by the canonical key
 * the kind computes (context byte images + model state).  Every history is
 * re-materialised many times; its canonical key must be identical each time
 * (canon-on-replay), otherwise the run is an engine error.
 * The exploration runs in a forked child so that a crash or hang inside the
 * library is attributed to an exact (history, operation) and reported as that
 * transition's outcome.
 */
#ifndef VERIF_MC_H
#define VERIF_MC_H
#include <stddef.h>
#include <stdint.h>

#define MC_MAX_DEPTH 96

typedef struct {
    const char *name;                       /* appears in replay descriptors */
    const char *sigbase;                    /* prefix of crash/hang finding signatures */
    int nops;
    void (*reset)(void);                    /* fresh world */
    int (*enabled)(int op);                 /* in the current world */
    void (*apply)(int op, int check);       /* run op on implementation and model; check != 0: evaluate oracles */
    size_t (*canon)(uint8_t *buf, size_t cap);
    void (*opname)(int op, char *buf, size_t n);
    int max_depth;
    /* Optional: harness-side world (model + caller-owned handles) as plain bytes.  When
     * set, a state is materialised by a full replay from fresh objects once (and its
     * canonical key re-checked); the remaining operations of that state start from a
     * byte snapshot of the world and of the allocator arena taken right after that
     * replay.  One state in eight is additionally re-expanded by full replays and the
     * successor keys must agree (guards the snapshot shortcut). */
    void *world; size_t world_size;
} MCKind;

/* Explores kind k to a fixpoint (or max_depth).  Returns 1 when the frontier was
 * exhausted (closure reached), 0 when max_depth cut it. */
int mc_explore(const MCKind *k);
/* Replays "kind:op,op,op" with oracles on at every step */
void mc_replay(const MCKind *const *kinds, int nkinds, const char *desc);
/* Current history as a replayable descriptor (valid inside apply()) */
const char *mc_casedesc(void);
/* Human-readable history (valid inside apply()) */
const char *mc_history_text(void);

/* Crash attribution for harnesses that enumerate cases themselves: returns 1 when this
 * case already crashed in an earlier child (skip it; the violation is recorded). */
int guard_enter(const char *sigbase, const char *casedesc);
void guard_leave(void);

/* Runs body() in a forked child with crash/hang attribution; returns exit code. */
int mc_guarded_main(void (*body)(void));

#endif
