/* Splits a valgrind lackey --trace-mem=yes trace (stdin) at stores to two marker
 * addresses and prints one digest per segment over the events of library code:
 * instruction addresses in [lo,hi) and the addresses and sizes of their loads/stores.
 * usage: lackey_cmp <lo> <hi> <marker_begin> <marker_end>   (hex) */
#include <stdio.h>
#include <stdlib.h>
#include <stdint.h>
#include <string.h>

int main(int argc, char **argv)
{
    uint64_t lo, hi, mb, me, h = 0, cnt = 0, icnt = 0;
    int inseg = 0, inlib = 0, seg = 0;
    char line[256];
    if (argc != 5) return 3;
    lo = strtoull(argv[1], 0, 16); hi = strtoull(argv[2], 0, 16); mb = strtoull(argv[3], 0, 16); me = strtoull(argv[4], 0, 16);
    while (fgets(line, sizeof(line), stdin)) {
        char kind; uint64_t addr; unsigned size; char *p = line;
        if (line[0] == 'I') kind = 'I', p = line + 1;
        else if (line[0] == ' ' && (line[1] == 'S' || line[1] == 'L' || line[1] == 'M')) kind = line[1], p = line + 2;
        else continue;
        addr = strtoull(p, &p, 16);
        if (*p != ',') continue;
        size = (unsigned)strtoul(p + 1, 0, 10);
        if (kind == 'I') { inlib = addr >= lo && addr < hi; if (inseg && inlib) { h = (h ^ addr) * 0x100000001b3ULL; h ^= h >> 31; ++cnt; ++icnt; } continue; }
        if (kind == 'S' || kind == 'M') {
            if (addr == mb) { inseg = 1; h = 0xcbf29ce484222325ULL; cnt = 0; icnt = 0; continue; }
            if (addr == me && inseg) { printf("seg %d %016llx %llu %llu\n", seg++, (unsigned long long)h, (unsigned long long)cnt, (unsigned long long)icnt); inseg = 0; continue; }
        }
        if (inseg && inlib) { h = (h ^ (addr * 31 + size * 7 + (uint64_t)kind)) * 0x100000001b3ULL; h ^= h >> 31; ++cnt; }
    }
    printf("end %d\n", seg);
    return 0;
}
