#include "mc.h"
#include "common.h"
#include "alloc.h"
#include <string.h>
#include <stdlib.h>
#include <signal.h>
#include <unistd.h>
#include <time.h>
#include <sys/mman.h>
#include <sys/wait.h>

#define MAX_CRASH 24
#define HANG_SECS 40

typedef struct {
    volatile uint64_t progress;
    volatile int inside;
    char kind[96];
    char sigbase[128];
    int hist_len;
    uint16_t hist[MC_MAX_DEPTH + 1];   /* includes the op being applied */
    char opname[160];
    char text[1800];
    int ncrash;
    struct { char desc[900]; char sig[300]; char text[1900]; } crash[MAX_CRASH];
} Shared;

static uint64_t g_skipped_crashy;
static Shared *sh;
static Shared local_sh;

typedef struct { uint32_t parent; uint16_t op; uint16_t depth; uint64_t k1, k2; } Node;

static Node *nodes; static size_t nnodes, capnodes;
static uint32_t *htab; static size_t hcap;
static const MCKind *cur_kind;
static uint16_t cur_hist[MC_MAX_DEPTH + 1];
static int cur_len;
static char descbuf[900], textbuf[1800];

static Shared *S(void) { return sh ? sh : &local_sh; }

static void hset_grow(void)
{
    size_t ncap = hcap ? hcap * 2 : (1u << 16), i;
    uint32_t *nt = calloc(ncap, sizeof(uint32_t));
    if (!nt) engine_error("out of memory (state table)");
    for (i = 0; i < hcap; ++i) if (htab[i]) {
        Node *n = &nodes[htab[i] - 1];
        size_t j = (size_t)(n->k1 * 0x9E3779B97F4A7C15ULL) & (ncap - 1);
        while (nt[j]) j = (j + 1) & (ncap - 1);
        nt[j] = htab[i];
    }
    free(htab); htab = nt; hcap = ncap;
}

/* returns node index if present, else (size_t)-1 */
static size_t hset_find(uint64_t k1, uint64_t k2)
{
    size_t j;
    if (!hcap) return (size_t)-1;
    j = (size_t)(k1 * 0x9E3779B97F4A7C15ULL) & (hcap - 1);
    while (htab[j]) {
        Node *n = &nodes[htab[j] - 1];
        if (n->k1 == k1 && n->k2 == k2) return htab[j] - 1;
        j = (j + 1) & (hcap - 1);
    }
    return (size_t)-1;
}

static size_t node_add(uint32_t parent, uint16_t op, uint16_t depth, uint64_t k1, uint64_t k2)
{
    size_t j;
    if (nnodes == capnodes) {
        capnodes = capnodes ? capnodes * 2 : 4096;
        nodes = realloc(nodes, capnodes * sizeof(Node));
        if (!nodes) engine_error("out of memory (nodes)");
    }
    if ((nnodes + 1) * 2 >= hcap) hset_grow();
    nodes[nnodes].parent = parent; nodes[nnodes].op = op; nodes[nnodes].depth = depth;
    nodes[nnodes].k1 = k1; nodes[nnodes].k2 = k2;
    j = (size_t)(k1 * 0x9E3779B97F4A7C15ULL) & (hcap - 1);
    while (htab[j]) j = (j + 1) & (hcap - 1);
    htab[j] = (uint32_t)(nnodes + 1);
    return nnodes++;
}

static int path_of(size_t idx, uint16_t *out)
{
    int d = nodes[idx].depth, i = d;
    while (i > 0) { out[--i] = nodes[idx].op; idx = nodes[idx].parent; }
    return d;
}

static void canon_key(const MCKind *k, uint64_t *k1, uint64_t *k2)
{
    static uint8_t buf[16384];
    size_t n = k->canon(buf, sizeof(buf));
    uint64_t sh;
    if (n > sizeof(buf)) engine_error("canon buffer overflow");
    sh = verif_shadow_sig(buf, n);   /* (copies carry the shadow of what they were copied from) */
    verif_unpoison(buf, n);   /* images of heap blocks the library left partly unwritten: the engine may hash them, the library may not use them */
    *k1 = fnv1a(buf, n, FNV_INIT);
    *k2 = fnv1a(buf, n, 0x9ae16a3b2f90404fULL) ^ (uint64_t)n;
    *k1 ^= sh; *k2 += sh * 0x9e3779b97f4a7c15ULL;
}

const char *mc_casedesc(void)
{
    int i; size_t o;
    o = (size_t)snprintf(descbuf, sizeof(descbuf), "%s:", cur_kind ? cur_kind->name : "?");
    for (i = 0; i < cur_len && o + 8 < sizeof(descbuf); ++i)
        o += (size_t)snprintf(descbuf + o, sizeof(descbuf) - o, "%s%d", i ? "," : "", cur_hist[i]);
    return descbuf;
}

const char *mc_history_text(void)
{
    int i; size_t o = 0; char nm[160];
    textbuf[0] = 0;
    for (i = 0; i < cur_len && o + 170 < sizeof(textbuf); ++i) {
        cur_kind->opname(cur_hist[i], nm, sizeof(nm));
        o += (size_t)snprintf(textbuf + o, sizeof(textbuf) - o, "%s%s", i ? "; " : "", nm);
    }
    return textbuf;
}

/* A transition is skipped when the same operation of the same kind already crashed
 * in an earlier child: the crash is reported once (with its shortest history, BFS
 * order) and that operation is not executed again in this run. */
static int crashed_before(void)
{
    int i;
    Shared *s = S();
    char prefix[128]; size_t pl;
    if (!s->ncrash) return 0;
    pl = (size_t)snprintf(prefix, sizeof(prefix), "%s:", cur_kind->name);
    for (i = 0; i < s->ncrash; ++i) {
        const char *d = s->crash[i].desc, *last;
        if (strncmp(d, prefix, pl) != 0) continue;
        last = strrchr(d, ',');
        last = last ? last + 1 : d + pl;
        if (atoi(last) == (int)cur_hist[cur_len - 1]) { ++g_skipped_crashy; return 1; }
    }
    return 0;
}

static void publish_current(void)
{
    Shared *s = S();
    if (!sh) return;
    snprintf(s->kind, sizeof(s->kind), "%s", cur_kind->name);
    snprintf(s->sigbase, sizeof(s->sigbase), "%s", cur_kind->sigbase ? cur_kind->sigbase : cur_kind->name);
    s->hist_len = cur_len;
    memcpy(s->hist, cur_hist, sizeof(uint16_t) * (size_t)cur_len);
    cur_kind->opname(cur_hist[cur_len - 1], s->opname, sizeof(s->opname));
}

int mc_explore(const MCKind *k)
{
    size_t qi;
    uint64_t k1, k2;
    int truncated = 0, op, i;
    uint16_t hist[MC_MAX_DEPTH + 1];
    int maxd = k->max_depth > 0 && k->max_depth < MC_MAX_DEPTH ? k->max_depth : MC_MAX_DEPTH - 1;

    cur_kind = k;
    nnodes = 0;
    if (htab) memset(htab, 0, hcap * sizeof(uint32_t));
    k->reset();
    cur_len = 0;
    canon_key(k, &k1, &k2);
    node_add(0, 0, 0, k1, k2);

    for (qi = 0; qi < nnodes; ++qi) {
        int d;
        /* A broken implementation can make the reachable set explode (e.g. state that keeps
         * accumulating).  The counterexamples found so far are the shortest ones (BFS order);
         * stop expanding once plenty have been recorded, or at the state cap. */
        if (g_cnt.violations >= 400) { truncated = 1; note_kv("stopped_early", "exploration of %s stopped after %llu violations", k->name, (unsigned long long)g_cnt.violations); break; }
        if (nnodes > 3000000) { truncated = 1; note_kv("state_cap", "exploration of %s stopped at the 3,000,000 state cap", k->name); break; }
        d = path_of(qi, hist);
        int use_snap = k->world != NULL;
        int audit = use_snap && (qi % 8 == 3);
        static uint8_t *wsnap; static size_t wsnap_cap;
        static uint64_t succ1[8192], succ2[8192];

        /* materialise the state: full replay of its history on fresh objects */
        k->reset();
        memcpy(cur_hist, hist, sizeof(uint16_t) * (size_t)d);
        for (i = 0; i < d; ++i) { cur_len = i + 1; k->apply(hist[i], 0); }
        cur_len = d;
        ++g_cnt.traces;
        canon_key(k, &k1, &k2);
        if (k1 != nodes[qi].k1 || k2 != nodes[qi].k2)
            engine_error("non-deterministic replay in kind %s history [%s]", k->name, mc_history_text());
        if (use_snap) {
            if (wsnap_cap < k->world_size) { wsnap = realloc(wsnap, k->world_size); wsnap_cap = k->world_size; }
            memcpy(wsnap, k->world, k->world_size);
            arena_snapshot();
        }
        if (k->nops > 8192) engine_error("alphabet too large for the audit table");

        for (op = 0; op < k->nops; ++op) {
            if (op > 0) {
                if (use_snap) { memcpy(k->world, wsnap, k->world_size); arena_restore(); }
                else {
                    k->reset();
                    for (i = 0; i < d; ++i) { cur_len = i + 1; k->apply(hist[i], 0); }
                }
                cur_len = d;
            }
            succ1[op] = 0; succ2[op] = 0;
            if (!k->enabled(op)) continue;
            cur_hist[d] = (uint16_t)op; cur_len = d + 1;
            if (crashed_before()) continue;
            publish_current();
            S()->inside = 1;
            k->apply(op, 1);
            S()->inside = 0;
            ++S()->progress;
            ++g_cnt.transitions;
            canon_key(k, &k1, &k2);
            succ1[op] = k1; succ2[op] = k2 | 1;
            if (hset_find(k1, k2) == (size_t)-1) {
                if (d + 1 <= maxd) node_add((uint32_t)qi, (uint16_t)op, (uint16_t)(d + 1), k1, k2);
                else truncated = 1;
            }
        }
        if (audit) {
            /* re-expand this state by full replays; successor keys must agree */
            for (op = 0; op < k->nops; ++op) {
                if (!succ2[op]) continue;
                k->reset();
                for (i = 0; i < d; ++i) { cur_len = i + 1; k->apply(hist[i], 0); }
                cur_hist[d] = (uint16_t)op; cur_len = d + 1;
                k->apply(op, 0);
                ++g_cnt.traces;
                canon_key(k, &k1, &k2);
                if (k1 != succ1[op] || (k2 | 1) != succ2[op])
                    engine_error("snapshot/replay disagreement in kind %s after [%s]", k->name, mc_history_text());
            }
        }
    }
    if (nnodes > 1) {
        /* an actual explored history for the evidence: the last state that was discovered */
        int d = path_of(nnodes - 1, hist);
        memcpy(cur_hist, hist, sizeof(uint16_t) * (size_t)d); cur_len = d;
        sample_add("%s: %zu states; last discovered state reached by: %s", k->name, nnodes, mc_history_text());
    }
    if (getenv("MC_STATS")) {
        size_t hist_d[MC_MAX_DEPTH + 1] = {0}, q;
        for (q = 0; q < nnodes; ++q) ++hist_d[nodes[q].depth];
        fprintf(stderr, "%s: %zu states;", k->name, nnodes);
        for (q = 0; q <= MC_MAX_DEPTH; ++q) if (hist_d[q]) fprintf(stderr, " d%zu=%zu", q, hist_d[q]);
        fprintf(stderr, "\n");
    }
    g_cnt.states += nnodes;
    if (g_skipped_crashy) note_num("transitions_skipped_after_crash_of_same_operation", (double)g_skipped_crashy);
    return !truncated;
}

void mc_replay(const MCKind *const *kinds, int nkinds, const char *desc)
{
    const char *colon = strrchr(desc, ':');
    const MCKind *k = NULL;
    int i;
    const char *p;
    if (!colon) engine_error("bad replay descriptor");
    for (i = 0; i < nkinds; ++i)
        if (strlen(kinds[i]->name) == (size_t)(colon - desc) && !strncmp(kinds[i]->name, desc, (size_t)(colon - desc)))
            k = kinds[i];
    if (!k) engine_error("replay: unknown kind in '%s'", desc);
    cur_kind = k;
    k->reset();
    cur_len = 0;
    p = colon + 1;
    while (*p) {
        int op = atoi(p);
        if (op < 0 || op >= k->nops) engine_error("replay: op %d out of range (a divergence while replaying is a hard error)", op);
        if (!k->enabled(op)) engine_error("replay: op %d not enabled at step %d", op, cur_len);
        cur_hist[cur_len++] = (uint16_t)op;
        if (crashed_before()) return;   /* recorded by the guarding parent */
        publish_current();
        S()->inside = 1;
        k->apply(op, 1);
        S()->inside = 0;
        ++S()->progress;
        ++g_cnt.transitions;
        p = strchr(p, ',');
        if (!p) break;
        ++p;
    }
}

/* Generic crash attribution for non-BFS harnesses: bracket one case. */
int guard_enter(const char *sigbase, const char *casedesc)
{
    Shared *s = S();
    int i, same = 0;
    size_t bl = strlen(sigbase);
    for (i = 0; i < s->ncrash; ++i) {
        if (!strcmp(s->crash[i].desc, casedesc)) return 1;
        if (!strncmp(s->crash[i].sig, sigbase, bl) && !strncmp(s->crash[i].sig + bl, "/crash/", 7)) ++same;
    }
    if (same >= 2) { ++g_skipped_crashy; return 1; }   /* this group already crashed twice: reported, not run again */
    if (sh) {
        snprintf(s->sigbase, sizeof(s->sigbase), "%s", sigbase);
        snprintf(s->text, sizeof(s->text), "%s", casedesc);
        s->inside = 2;
    }
    return 0;
}

void guard_leave(void)
{
    S()->inside = 0;
    ++S()->progress;
}

static const char *signame(int s)
{
    switch (s) {
    case SIGSEGV: return "SIGSEGV"; case SIGBUS: return "SIGBUS"; case SIGABRT: return "SIGABRT";
    case SIGFPE: return "SIGFPE"; case SIGILL: return "SIGILL"; case SIGKILL: return "hang"; default: return "signal";
    }
}

void guard_note_skips(void)
{
    if (g_skipped_crashy) note_num("cases_skipped_after_repeated_crashes_in_their_group", (double)g_skipped_crashy);
}

int mc_guarded_main(void (*body)(void))
{
    sh = mmap(NULL, sizeof(Shared), PROT_READ | PROT_WRITE, MAP_SHARED | MAP_ANONYMOUS, -1, 0);
    if (sh == MAP_FAILED) engine_error("mmap shared");
    memset(sh, 0, sizeof(*sh));
    for (;;) {
        pid_t pid;
        int status = 0, i;
        uint64_t last = 0; time_t last_t = time(NULL);
        fflush(stdout);
        pid = fork();
        if (pid < 0) engine_error("fork failed");
        if (pid == 0) {
            for (i = 0; i < sh->ncrash; ++i)
                violation(sh->crash[i].sig, sh->crash[i].desc, "%s", sh->crash[i].text);
            body();
            guard_note_skips();
            fflush(stdout);
            _exit(finish());
        }
        for (;;) {
            pid_t r = waitpid(pid, &status, WNOHANG);
            struct timespec ts = {0, 20 * 1000 * 1000};
            if (r == pid) break;
            if (sh->progress != last) { last = sh->progress; last_t = time(NULL); }
            else if (sh->inside && time(NULL) - last_t > HANG_SECS) {
                kill(pid, SIGKILL); waitpid(pid, &status, 0); break;
            }
            nanosleep(&ts, NULL);
        }
        if (WIFEXITED(status)) return WEXITSTATUS(status);
        if (!sh->inside) {
            printf("ENGINE-ERROR: exploration child died (signal %d) outside a library transition\n", WTERMSIG(status));
            return EXIT_ENGINE;
        }
        if (sh->ncrash >= MAX_CRASH) {
            printf("ENGINE-ERROR: more than %d crashing transitions; giving up\n", MAX_CRASH);
            return EXIT_ENGINE;
        }
        if (sh->inside == 2) {
            int n = sh->ncrash;
            const char *sn = signame(WTERMSIG(status));
            snprintf(sh->crash[n].desc, sizeof(sh->crash[n].desc), "%s", sh->text);
            snprintf(sh->crash[n].sig, sizeof(sh->crash[n].sig), "%s/crash/%s", sh->sigbase, sn);
            snprintf(sh->crash[n].text, sizeof(sh->crash[n].text), "%s in the library during case '%s'", sn, sh->text);
            sh->ncrash = n + 1;
            sh->inside = 0;
        } else {
            int n = sh->ncrash, j; size_t o;
            const char *sn = signame(WTERMSIG(status));
            o = (size_t)snprintf(sh->crash[n].desc, sizeof(sh->crash[n].desc), "%s:", sh->kind);
            for (j = 0; j < sh->hist_len && o + 8 < sizeof(sh->crash[n].desc); ++j)
                o += (size_t)snprintf(sh->crash[n].desc + o, sizeof(sh->crash[n].desc) - o, "%s%d", j ? "," : "", sh->hist[j]);
            snprintf(sh->crash[n].sig, sizeof(sh->crash[n].sig), "%s/%s/%s", sh->sigbase, sn, sh->opname);
            snprintf(sh->crash[n].text, sizeof(sh->crash[n].text),
                     "%s in the library during '%s' after a history of %d operations (see case)", sn, sh->opname, sh->hist_len - 1);
            sh->ncrash = n + 1;
            sh->inside = 0;
        }
    }
}
