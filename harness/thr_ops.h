/* Operation bodies shared by the controlled scheduler (h_thr.c) and the free-running
 * ThreadSanitizer pass (h_tsan.c).  Included once per translation unit. */
#ifndef VERIF_THR_OPS_H
#define VERIF_THR_OPS_H
#ifndef MAXT
#define MAXT 3
#endif
/* ---------------- operations ---------------- */
typedef struct {
    uint8_t key[48], tweak[16], counter[16], in[600], out[600], tw[600];
    Skinny128Key_t k128; Skinny64Key_t k64; MantisKey_t km;
    Skinny128TweakedKey_t t128; Skinny64TweakedKey_t t64;
    Skinny128CTR_t c128; Skinny64CTR_t c64; MantisCTR_t cm;
    Skinny128ParallelECB_t p128; Skinny64ParallelECB_t p64; MantisParallelECB_t pm;
    uint64_t digest;
} Ctx;
static Ctx ctxs[MAXT];
/* shared read-only objects, set up once per execution by the main context */
typedef struct { Skinny128Key_t k128; Skinny64Key_t k64; MantisKey_t km; Skinny128TweakedKey_t t128;
                Skinny128ParallelECB_t p128; Skinny64ParallelECB_t p64; MantisParallelECB_t pm;
                uint8_t key[48], tweak[16], counter[16];
                /* the same kinds once more, handed over after a different LAST setup call (round 16: a setter may defer work to the first data call) */
                MantisKey_t km2; MantisParallelECB_t pm2; Skinny128TweakedKey_t t128b; Skinny64TweakedKey_t t64; } SharedObjs;   /* (const argument buffers that several threads pass to calls on their own objects) */
static SharedObjs *shared_p;    /* the including file provides the storage */
#define shared (*shared_p)

typedef struct { const char *name; void (*run)(Ctx *c); int uses_shared; } OpDef;

static void dg(Ctx *c, const void *p, size_t n) { c->digest = fnv1a(p, n, c->digest); }
static void dgi(Ctx *c, int v) { c->digest = fnv1a(&v, sizeof(v), c->digest); }

static void op_s128_block(Ctx *c) { dgi(c, skinny128_set_key(&c->k128, c->key, 37)); skinny128_ecb_encrypt(c->out + 32, c->in, &c->k128); dg(c, c->out + 32, 16); dgi(c, skinny128_set_key(&c->k128, c->key, 32)); skinny128_ecb_encrypt(c->out, c->in, &c->k128); skinny128_ecb_decrypt(c->out + 16, c->in + 16, &c->k128); dg(c, c->out, 32); }
static void op_s64_block(Ctx *c) { dgi(c, skinny64_set_key(&c->k64, c->key, 19)); skinny64_ecb_encrypt(c->out + 16, c->in, &c->k64); dg(c, c->out + 16, 8); dgi(c, skinny64_set_key(&c->k64, c->key, 11)); skinny64_ecb_decrypt(c->out + 24, c->in, &c->k64); dg(c, c->out + 24, 8); dgi(c, skinny64_set_key(&c->k64, c->key, 24)); skinny64_ecb_encrypt(c->out, c->in, &c->k64); skinny64_ecb_decrypt(c->out + 8, c->in + 8, &c->k64); dg(c, c->out, 16); }
static void op_mantis_block(Ctx *c) { dgi(c, mantis_set_key(&c->km, c->key, 16, 7, MANTIS_ENCRYPT)); dgi(c, mantis_set_tweak(&c->km, c->tweak, 8)); mantis_ecb_crypt(c->out, c->in, &c->km);
    mantis_swap_modes(&c->km); mantis_ecb_crypt(c->out + 8, c->in + 8, &c->km); mantis_ecb_crypt_tweaked(c->out + 16, c->in, c->tw, &c->km); dg(c, c->out, 24); }
static void op_s128_tweaked(Ctx *c) { dgi(c, skinny128_set_tweaked_key(&c->t128, c->key, 21)); skinny128_ecb_encrypt(c->out + 16, c->in, &c->t128.ks); dg(c, c->out + 16, 16); dgi(c, skinny128_set_tweaked_key(&c->t128, c->key, 32)); dgi(c, skinny128_set_tweak(&c->t128, c->tweak, 16)); dgi(c, skinny128_set_tweak(&c->t128, c->tweak + 1, 7));
    skinny128_ecb_encrypt(c->out, c->in, &c->t128.ks); dg(c, c->out, 16); }
static void op_s64_tweaked(Ctx *c) { dgi(c, skinny64_set_tweaked_key(&c->t64, c->key, 13)); skinny64_ecb_encrypt(c->out + 8, c->in, &c->t64.ks); dg(c, c->out + 8, 8); dgi(c, skinny64_set_tweaked_key(&c->t64, c->key, 16)); dgi(c, skinny64_set_tweak(&c->t64, c->tweak, 8)); skinny64_ecb_encrypt(c->out, c->in, &c->t64.ks); dg(c, c->out, 8); }
static void op_s128_ctr(Ctx *c) { dgi(c, skinny128_ctr_init(&c->c128)); dgi(c, skinny128_ctr_set_tweaked_key(&c->c128, c->key, 32)); dgi(c, skinny128_ctr_set_tweak(&c->c128, c->tweak, 16));
    dgi(c, skinny128_ctr_set_counter(&c->c128, c->counter, 16)); dgi(c, skinny128_ctr_encrypt(c->out, c->in, 150, &c->c128)); dgi(c, skinny128_ctr_set_key(&c->c128, c->key, 16));
    dgi(c, skinny128_ctr_encrypt(c->out + 150, c->in + 150, 131, &c->c128)); skinny128_ctr_cleanup(&c->c128); dg(c, c->out, 281); }
static void op_s64_ctr(Ctx *c) { dgi(c, skinny64_ctr_init(&c->c64)); dgi(c, skinny64_ctr_set_key(&c->c64, c->key, 21)); dgi(c, skinny64_ctr_set_counter(&c->c64, c->counter, 5));
    dgi(c, skinny64_ctr_encrypt(c->out, c->in, 77, &c->c64)); dgi(c, skinny64_ctr_encrypt(c->out + 77, c->in + 77, 70, &c->c64)); skinny64_ctr_cleanup(&c->c64); dg(c, c->out, 147); }
static void op_mantis_ctr(Ctx *c) { dgi(c, mantis_ctr_init(&c->cm)); dgi(c, mantis_ctr_set_key(&c->cm, c->key, 16, 6)); dgi(c, mantis_ctr_set_tweak(&c->cm, c->tweak, 8));
    dgi(c, mantis_ctr_set_counter(&c->cm, c->counter, 8)); dgi(c, mantis_ctr_encrypt(c->out, c->in, 99, &c->cm)); mantis_ctr_cleanup(&c->cm); dg(c, c->out, 99); }
static void op_s128_par(Ctx *c) { dgi(c, skinny128_parallel_ecb_init(&c->p128)); dgi(c, (int)c->p128.parallel_size); dgi(c, skinny128_parallel_ecb_set_key(&c->p128, c->key, 43));
    dgi(c, skinny128_parallel_ecb_encrypt(c->out, c->in, 16 * 19, &c->p128)); dgi(c, skinny128_parallel_ecb_decrypt(c->out + 304, c->in, 16 * 9, &c->p128)); skinny128_parallel_ecb_cleanup(&c->p128); dg(c, c->out, 448); }
static void op_s64_par(Ctx *c) { dgi(c, skinny64_parallel_ecb_init(&c->p64)); dgi(c, skinny64_parallel_ecb_set_key(&c->p64, c->key, 10));
    dgi(c, skinny64_parallel_ecb_encrypt(c->out, c->in, 8 * 19, &c->p64)); dgi(c, skinny64_parallel_ecb_decrypt(c->out + 152, c->in, 8 * 9, &c->p64)); skinny64_parallel_ecb_cleanup(&c->p64); dg(c, c->out, 224); }
static void op_mantis_par(Ctx *c) { dgi(c, mantis_parallel_ecb_init(&c->pm)); dgi(c, mantis_parallel_ecb_set_key(&c->pm, c->key, 16, 8, MANTIS_DECRYPT)); mantis_parallel_ecb_swap_modes(&c->pm);
    dgi(c, mantis_parallel_ecb_crypt(c->out, c->in, c->tw, 8 * 19, &c->pm)); mantis_parallel_ecb_cleanup(&c->pm); dg(c, c->out, 152); }
static void op_inits(Ctx *c) { dgi(c, skinny128_ctr_init(&c->c128)); dgi(c, skinny64_ctr_init(&c->c64)); dgi(c, mantis_ctr_init(&c->cm)); dgi(c, skinny128_parallel_ecb_init(&c->p128));
    dgi(c, skinny64_parallel_ecb_init(&c->p64)); dgi(c, mantis_parallel_ecb_init(&c->pm)); dgi(c, (int)c->p128.parallel_size);
    skinny128_ctr_cleanup(&c->c128); skinny64_ctr_cleanup(&c->c64); mantis_ctr_cleanup(&c->cm); skinny128_parallel_ecb_cleanup(&c->p128); skinny64_parallel_ecb_cleanup(&c->p64); mantis_parallel_ecb_cleanup(&c->pm); }
/* read-only users of shared objects */
static void op_sh_s128(Ctx *c) { skinny128_ecb_encrypt(c->out, c->in, &shared.k128); skinny128_ecb_decrypt(c->out + 16, c->in + 16, &shared.k128); skinny128_ecb_encrypt(c->out + 32, c->in, &shared.t128.ks);
    skinny128_ecb_encrypt(c->out + 48, c->in, &shared.t128b.ks); skinny128_ecb_decrypt(c->out + 64, c->in, &shared.t128b.ks); dg(c, c->out, 80); }
static void op_sh_s64(Ctx *c) { skinny64_ecb_encrypt(c->out, c->in, &shared.k64); skinny64_ecb_decrypt(c->out + 8, c->in + 8, &shared.k64);
    skinny64_ecb_encrypt(c->out + 16, c->in, &shared.t64.ks); skinny64_ecb_decrypt(c->out + 24, c->in + 8, &shared.t64.ks); dg(c, c->out, 32); }
static void op_sh_mantis(Ctx *c) { mantis_ecb_crypt(c->out, c->in, &shared.km); mantis_ecb_crypt_tweaked(c->out + 8, c->in + 8, c->tw, &shared.km);
    mantis_ecb_crypt(c->out + 16, c->in, &shared.km2); mantis_ecb_crypt_tweaked(c->out + 24, c->in + 8, c->tw, &shared.km2); dg(c, c->out, 32); }
static void op_sh_p128(Ctx *c) { dgi(c, skinny128_parallel_ecb_encrypt(c->out, c->in, 16 * 11, &shared.p128)); dgi(c, skinny128_parallel_ecb_decrypt(c->out + 176, c->in, 16 * 9, &shared.p128)); dg(c, c->out, 320); }
static void op_sh_p64(Ctx *c) { dgi(c, skinny64_parallel_ecb_encrypt(c->out, c->in, 8 * 11, &shared.p64)); dgi(c, skinny64_parallel_ecb_decrypt(c->out + 88, c->in, 8 * 9, &shared.p64)); dg(c, c->out, 160); }
static void op_sh_pm(Ctx *c) { dgi(c, mantis_parallel_ecb_crypt(c->out, c->in, c->tw, 8 * 11, &shared.pm));
    dgi(c, mantis_parallel_ecb_crypt(c->out + 88, c->in, c->tw, 8 * 19, &shared.pm2)); dg(c, c->out, 240); }

/* distinct objects, adjacent outputs: thread t writes slice t of one array, the slices abut byte-exactly at odd
 * offsets (records of one message encrypted by several workers); nothing outside the slice may be read-modified-written */
static uint8_t adj[6][MAXT * 96 + 32] __attribute__((aligned(32)));
static void op_adj_ctr(Ctx *c)
{
    int t = (int)(c - ctxs); uint8_t *o;
    o = adj[0] + t * 37; dgi(c, skinny128_ctr_init(&c->c128)); dgi(c, skinny128_ctr_set_key(&c->c128, c->key, 16)); dgi(c, skinny128_ctr_set_counter(&c->c128, c->counter, 16));
    dgi(c, skinny128_ctr_encrypt(o, c->in, 37, &c->c128)); skinny128_ctr_cleanup(&c->c128); dg(c, o, 37);
    o = adj[1] + t * 21; dgi(c, skinny64_ctr_init(&c->c64)); dgi(c, skinny64_ctr_set_key(&c->c64, c->key, 16)); dgi(c, skinny64_ctr_encrypt(o, c->in, 13, &c->c64));
    dgi(c, skinny64_ctr_encrypt(o + 13, c->in + 13, 8, &c->c64)); skinny64_ctr_cleanup(&c->c64); dg(c, o, 21);
    o = adj[2] + t * 27; dgi(c, mantis_ctr_init(&c->cm)); dgi(c, mantis_ctr_set_key(&c->cm, c->key, 16, 5)); dgi(c, mantis_ctr_encrypt(o, c->in, 27, &c->cm)); mantis_ctr_cleanup(&c->cm); dg(c, o, 27);
}
static void op_adj_par(Ctx *c)
{
    int t = (int)(c - ctxs); uint8_t *o;
    o = adj[3] + t * 80; dgi(c, skinny128_parallel_ecb_init(&c->p128)); dgi(c, skinny128_parallel_ecb_set_key(&c->p128, c->key, 16));
    dgi(c, skinny128_parallel_ecb_encrypt(o, c->in, 80, &c->p128)); skinny128_parallel_ecb_cleanup(&c->p128); dg(c, o, 80);
    o = adj[4] + t * 72; dgi(c, skinny64_parallel_ecb_init(&c->p64)); dgi(c, skinny64_parallel_ecb_set_key(&c->p64, c->key, 16));
    dgi(c, skinny64_parallel_ecb_decrypt(o, c->in, 72, &c->p64)); skinny64_parallel_ecb_cleanup(&c->p64); dg(c, o, 72);
    o = adj[5] + t * 72; dgi(c, mantis_parallel_ecb_init(&c->pm)); dgi(c, mantis_parallel_ecb_set_key(&c->pm, c->key, 16, 5, MANTIS_ENCRYPT));
    dgi(c, mantis_parallel_ecb_crypt(o, c->in, c->tw, 72, &c->pm)); mantis_parallel_ecb_cleanup(&c->pm); dg(c, o, 72);
    /* the single-block functions on neighbouring blocks of one array */
    skinny64_set_key(&c->k64, c->key, 8); skinny64_ecb_encrypt(adj[4] + MAXT * 72 + t * 8, c->in, &c->k64); dg(c, adj[4] + MAXT * 72 + t * 8, 8);
}

/* distinct objects set up from the same const key / tweak / counter buffers (a table of constants in the caller's program) */
static void op_sh_args(Ctx *c)
{
    dgi(c, skinny128_set_tweaked_key(&c->t128, shared.key, 32)); dgi(c, skinny128_set_tweak(&c->t128, shared.tweak, 16)); skinny128_ecb_encrypt(c->out, c->in, &c->t128.ks);
    dgi(c, skinny64_set_tweaked_key(&c->t64, shared.key, 16)); dgi(c, skinny64_set_tweak(&c->t64, shared.tweak, 8)); skinny64_ecb_encrypt(c->out + 16, c->in, &c->t64.ks);
    dgi(c, mantis_set_key(&c->km, shared.key, 16, 6, MANTIS_ENCRYPT)); dgi(c, mantis_set_tweak(&c->km, shared.tweak, 8)); mantis_ecb_crypt(c->out + 24, c->in, &c->km);
    mantis_ecb_crypt_tweaked(c->out + 32, c->in, shared.tweak + 8, &c->km); dg(c, c->out, 40);
    dgi(c, skinny128_ctr_init(&c->c128)); dgi(c, skinny128_ctr_set_tweaked_key(&c->c128, shared.key, 32)); dgi(c, skinny128_ctr_set_tweak(&c->c128, shared.tweak, 16));
    dgi(c, skinny128_ctr_set_counter(&c->c128, shared.counter, 16)); dgi(c, skinny128_ctr_encrypt(c->out, c->in, 40, &c->c128)); skinny128_ctr_cleanup(&c->c128); dg(c, c->out, 40);
    dgi(c, skinny64_ctr_init(&c->c64)); dgi(c, skinny64_ctr_set_key(&c->c64, shared.key, 24)); dgi(c, skinny64_ctr_set_counter(&c->c64, shared.counter, 8));
    dgi(c, skinny64_ctr_encrypt(c->out, c->in, 20, &c->c64)); skinny64_ctr_cleanup(&c->c64); dg(c, c->out, 20);
    dgi(c, mantis_parallel_ecb_init(&c->pm)); dgi(c, mantis_parallel_ecb_set_key(&c->pm, shared.key, 16, 5, MANTIS_ENCRYPT));
    dgi(c, mantis_parallel_ecb_crypt(c->out, c->in, shared.key, 8 * 3, &c->pm)); mantis_parallel_ecb_cleanup(&c->pm); dg(c, c->out, 24);
}

extern int ctl_counter; int ctl_rmw(void);
static void op_control(Ctx *c) { dgi(c, ctl_rmw()); dgi(c, ctl_rmw()); }

static const OpDef OPS[] = {
    {"skinny128 set_key+ecb", op_s128_block, 0}, {"skinny64 set_key+ecb", op_s64_block, 0}, {"mantis set_key/set_tweak/swap/crypt", op_mantis_block, 0},
    {"skinny128 tweaked schedule", op_s128_tweaked, 0}, {"skinny64 tweaked schedule", op_s64_tweaked, 0},
    {"skinny128 CTR life cycle", op_s128_ctr, 0}, {"skinny64 CTR life cycle", op_s64_ctr, 0}, {"mantis CTR life cycle", op_mantis_ctr, 0},
    {"skinny128 parallel life cycle", op_s128_par, 0}, {"skinny64 parallel life cycle", op_s64_par, 0}, {"mantis parallel life cycle", op_mantis_par, 0},
    {"all six init functions", op_inits, 0},
    {"shared skinny128 schedules (read only)", op_sh_s128, 1}, {"shared skinny64 schedule (read only)", op_sh_s64, 1}, {"shared mantis schedule (read only)", op_sh_mantis, 1},
    {"shared skinny128 parallel object (read only)", op_sh_p128, 1}, {"shared skinny64 parallel object (read only)", op_sh_p64, 1}, {"shared mantis parallel object (read only)", op_sh_pm, 1},
    {"distinct objects set up from shared const key / tweak / counter buffers", op_sh_args, 1},
    {"CTR streams of distinct objects into adjacent slices of one array", op_adj_ctr, 0}, {"parallel ECB of distinct objects into adjacent slices of one array", op_adj_par, 0},
    {"CONTROL unsynchronised read-modify-write (harness-owned)", op_control, 0},
};
#define NOPS ((int)(sizeof(OPS) / sizeof(OPS[0])) - 1)
#define OP_CONTROL NOPS
static int control_mode, control_differs, control_store;
static uint64_t total_conflict_granules, total_combos, multi_outcome;

static void ctx_prepare(int t)
{
    Ctx *c = &ctxs[t];
    memset(c, 0, sizeof(*c));
    if (t == 0) memset(adj, 0, sizeof(adj));
    lcg_fill(c->key, 48, 10 + (uint32_t)t); lcg_fill(c->tweak, 16, 20 + (uint32_t)t); lcg_fill(c->counter, 16, 30 + (uint32_t)t);
    memset(c->counter, 0xFF, 12);
    lcg_fill(c->in, sizeof(c->in), 40 + (uint32_t)t); lcg_fill(c->tw, sizeof(c->tw), 50 + (uint32_t)t);
    c->digest = FNV_INIT;
}

static void shared_prepare(void)
{
    uint8_t k[48]; lcg_fill(k, 48, 99);
    ctl_counter = 0;
#ifdef THR_PREPARE_HOOK
    THR_PREPARE_HOOK;
#endif
    memset(&shared, 0, sizeof(shared));
    lcg_fill(shared.key, 48, 77); lcg_fill(shared.tweak, 16, 78); lcg_fill(shared.counter, 16, 79);
    skinny128_set_key(&shared.k128, k, 48); skinny64_set_key(&shared.k64, k, 16); mantis_set_key(&shared.km, k, 16, 8, MANTIS_ENCRYPT); mantis_set_tweak(&shared.km, k + 20, 8);
    skinny128_set_tweaked_key(&shared.t128, k, 16); skinny128_set_tweak(&shared.t128, k + 7, 16);
    skinny128_parallel_ecb_init(&shared.p128); skinny128_parallel_ecb_set_key(&shared.p128, k, 32);
    skinny64_parallel_ecb_init(&shared.p64); skinny64_parallel_ecb_set_key(&shared.p64, k, 24);
    mantis_parallel_ecb_init(&shared.pm); mantis_parallel_ecb_set_key(&shared.pm, k, 16, 6, MANTIS_ENCRYPT);
    /* last call before the hand-over: swap_modes (Mantis, both kinds), set_tweaked_key (Skinny-128), set_tweak (Skinny-64) */
    mantis_set_key(&shared.km2, k + 3, 16, 7, MANTIS_DECRYPT); mantis_set_tweak(&shared.km2, k + 21, 8); mantis_swap_modes(&shared.km2);
    mantis_parallel_ecb_init(&shared.pm2); mantis_parallel_ecb_set_key(&shared.pm2, k + 5, 16, 8, MANTIS_DECRYPT); mantis_parallel_ecb_swap_modes(&shared.pm2);
    skinny128_set_tweaked_key(&shared.t128b, k + 1, 32);
    skinny64_set_tweaked_key(&shared.t64, k + 2, 16); skinny64_set_tweak(&shared.t64, k + 9, 8);
}

static void shared_release(void)
{
    skinny128_parallel_ecb_cleanup(&shared.p128); skinny64_parallel_ecb_cleanup(&shared.p64); mantis_parallel_ecb_cleanup(&shared.pm); mantis_parallel_ecb_cleanup(&shared.pm2);
}

#endif
