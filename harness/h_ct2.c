/*
 * ct level 2 (C08): machine-level traces of the shipped gcc -O3 objects.  This program
 * runs one public-parameter combination: the operation is executed for a baseline
 * secret (three times: warm-up) and for each alternative secret of a small alphabet,
 * each execution bracketed by stores to two marker variables.  It is run under
 * valgrind --tool=lackey --trace-mem=yes; lackey_cmp.c splits the instruction/memory
 * trace at the markers, keeps the events of library code only, and prints one digest
 * per segment.  All segments after the warm-up must be identical.
 */
#include "ct_prog.h"
#include <stdlib.h>

volatile int ct2_marker_begin, ct2_marker_end;
static Secret fixed_secret;

static void __attribute__((noinline)) run_marked(const Pub *p, const Secret *src)
{
    memcpy(&fixed_secret, src, sizeof(Secret));
    ct2_marker_begin = 1;
    ct_prog_body(p, &fixed_secret);
    ct2_marker_end = 1;
}

int main(int argc, char **argv)
{
    static Pub list[600]; Pub p; Secret base, alt; int n, idx, f, pos, vi;
    static const uint8_t VALS[4] = {0x00, 0x01, 0x80, 0xff};
    parse_opts(argc, argv);
    if (!g_opts.sub) return 3;
    n = ct_combos(list, 600, tier_thorough());
    if (!strcmp(g_opts.sub, "count")) { printf("%d\n", n); return 0; }
    if (!strcmp(g_opts.sub, "control")) {
        /* positive control: table-lookup S-box (the driver points the comparer at its text range) */
        memset(&p, 0, sizeof(p)); p.prog = P_CONTROL; p.c = CK_S128;
        base_secret(&base);
        run_marked(&p, &base); run_marked(&p, &base); run_marked(&p, &base);
        for (vi = 0; vi < 8; ++vi) { alt = base; alt.data[0] = (uint8_t)(vi * 37 + 1); run_marked(&p, &alt); }
        printf("control\n");
        return 0;
    }
    idx = atoi(g_opts.sub);
    if (idx < 0 || idx >= n) return 3;
    p = list[idx];
    arena_reset(); g_pin = p.be;
    memset(&O, 0, sizeof(O));
    if ((p.prog == P_CTR || p.prog == P_SEEK) && !ctr_init(p.c, p.be, &O.co)) return 3;
    if (p.prog == P_PAR && !par_init(p.c, p.be, &O.po)) return 3;
    base_secret(&base);
    run_marked(&p, &base); run_marked(&p, &base); run_marked(&p, &base);
    for (f = 0; f < 5; ++f) {
        size_t off = f == 0 ? offsetof(Secret, key) : f == 1 ? offsetof(Secret, tweak) : f == 2 ? offsetof(Secret, counter) : f == 3 ? offsetof(Secret, data) : offsetof(Secret, tw);
        size_t len = f == 0 ? 48 : (f == 1 || f == 2) ? 16 : 64;
        int fill;
        for (fill = 0; fill < 2; ++fill) { alt = base; memset((uint8_t *)&alt + off, fill ? 0xFF : 0, len); run_marked(&p, &alt); }
        for (pos = 0; pos < (int)len; pos += (tier_thorough() ? 1 : (f == 2 ? 3 : 7))) for (vi = 0; vi < (tier_thorough() ? 4 : 2); ++vi) {
            alt = base; ((uint8_t *)&alt)[off + (size_t)pos] = VALS[tier_thorough() ? vi : vi * 3];
            run_marked(&p, &alt);
        }
    }
    {   /* counter low byte around the wrap, under all-00 / all-FF neighbours (carry and borrow chains) */
        static const uint8_t LOW[] = {0xF7, 0xF8, 0xF9, 0xFA, 0xFB, 0xFC, 0xFD, 0xFE, 0xFF, 0x00, 0x01, 0x02, 0x03, 0x04};
        int hi; size_t li;
        for (hi = 0; hi < 2; ++hi) for (li = 0; li < sizeof(LOW); ++li) {
            alt = base; memset(alt.counter, hi ? 0xFF : 0x00, 16);
            if (p.clen >= 1) alt.counter[p.clen - 1] = LOW[li];
            run_marked(&p, &alt);
        }
    }
    if (p.prog == P_SEEK) { int k; for (k = 0; ct_related_counter(&p, &base, &alt, k); ++k) run_marked(&p, &alt); }
    {   /* carry chains */
        int k;
        for (k = 0; k <= 16; k += (tier_thorough() ? 1 : 4)) { alt = base; memset(alt.counter, 0, 16); if (k) memset(alt.counter + 16 - k, 0xFF, (size_t)k); run_marked(&p, &alt); }
    }
    printf("combo %d: %s %s be=%s klen=%d tweaked=%d tlen=%d clen=%d rounds=%d mode=%d size=%d\n", idx, PNAME[p.prog], cipher_name(p.c), be_name(p.be),
           p.klen, p.tweaked, p.tlen, p.clen, p.rounds, p.mode, p.size);
    return 0;
}
