/* Positive control for the scheduler (compiled with the same instrumentation as the
 * library): an unsynchronised read-modify-write on a global.  Needs exactly one
 * preemption between the load and the store to lose an update. */
int ctl_counter;
int ctl_rmw(void)
{
    int v = ctl_counter;
    v = v + 1;
    ctl_counter = v;
    return v;
}
