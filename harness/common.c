#include "common.h"
#include <unistd.h>
#include <stdlib.h>
#include <string.h>

Opts g_opts = { NULL, "quick", 1, 0, 1, NULL, NULL, "", 2 };
Counters g_cnt;
int g_prelude_used = 0;
int g_prelude_opt = -1;    /* --prelude; -1: the harness derives it from the shard number (prelude.c) */

void parse_opts(int argc, char **argv)
{
    int i;
    for (i = 1; i < argc; ++i) {
        if (!strcmp(argv[i], "--out") && i + 1 < argc) g_opts.out = argv[++i];
        else if (!strcmp(argv[i], "--tier") && i + 1 < argc) g_opts.tier = argv[++i];
        else if (!strcmp(argv[i], "--seed") && i + 1 < argc) g_opts.seed = atol(argv[++i]);
        else if (!strcmp(argv[i], "--shard") && i + 1 < argc) {
            if (sscanf(argv[++i], "%d/%d", &g_opts.shard, &g_opts.nshards) != 2 ||
                g_opts.nshards < 1 || g_opts.shard < 0 || g_opts.shard >= g_opts.nshards) {
                fprintf(stderr, "bad --shard\n"); exit(EXIT_ENGINE);
            }
        }
        else if (!strcmp(argv[i], "--replay") && i + 1 < argc) g_opts.replay = argv[++i];
        else if (!strcmp(argv[i], "--sub") && i + 1 < argc) g_opts.sub = argv[++i];
        else if (!strcmp(argv[i], "--label") && i + 1 < argc) g_opts.label = argv[++i];
        else if (!strcmp(argv[i], "--maxbe") && i + 1 < argc) g_opts.maxbe = atoi(argv[++i]);
        else if (!strcmp(argv[i], "--paint") && i + 1 < argc) g_paint = atoi(argv[++i]);
        else if (!strcmp(argv[i], "--prelude") && i + 1 < argc) g_prelude_opt = atoi(argv[++i]);
        else { fprintf(stderr, "unknown option %s\n", argv[i]); exit(EXIT_ENGINE); }
    }
}

int g_paint = -1;
uint64_t g_out_sum;

#if defined(__has_feature)
#if __has_feature(memory_sanitizer)
#include <sanitizer/msan_interface.h>
#define VERIF_MSAN 1
#endif
#endif

static struct { const char *tag; uint64_t sum, n; } tagsums[48]; static int n_tagsums;

void __attribute__((noinline)) verif_paint_stack(void)
{
    volatile uint8_t area[6144];
    size_t i;
    if (g_paint < 0) return;
    for (i = 0; i < sizeof(area); ++i) area[i] = (uint8_t)g_paint;
#ifdef VERIF_MSAN
    __msan_poison((const void *)area, sizeof(area));
#endif
}

void verif_paint_obj(void *p, size_t n)
{
    memset(p, g_paint < 0 ? 0xA5 : g_paint, n);
#ifdef VERIF_MSAN
    __msan_poison(p, n);
#endif
}

void verif_unpoison(void *p, size_t n)
{
#ifdef VERIF_MSAN
    __msan_unpoison(p, n);
#else
    (void)p; (void)n;
#endif
}

/* Which bytes of [p, p+n) are uninitialised according to MemorySanitizer, as one number (0 in other builds).
 * Part of every canonical state image: two states with equal bytes of which one holds values computed from
 * uninitialised memory are different states (with the stack painted 0x00 such values are often the "right" ones). */
uint64_t verif_shadow_sig(const void *p, size_t n)
{
#ifdef VERIF_MSAN
    uint64_t h = 0;
    size_t o = 0;
    while (o < n) {
        intptr_t k = __msan_test_shadow((const uint8_t *)p + o, n - o);
        if (k < 0) break;
        o += (size_t)k;
        h = (h ^ (uint64_t)(o + 1)) * 0x100000001b3ULL + 0x9e3779b97f4a7c15ULL;
        ++o;
    }
    return h;
#else
    (void)p; (void)n;
    return 0;
#endif
}

void out_digest(const char *tag, const void *out, size_t n)
{
#ifdef VERIF_MSAN
    /* explicit shadow test: nothing the API defines may be computed from uninitialised memory */
    intptr_t off = __msan_test_shadow(out, n);
    if (off >= 0) {
        char sig[200];
        snprintf(sig, sizeof(sig), "C11/uninitialised-output/%s", tag);
        violation(sig, "", "byte %ld of a %zu-byte result (%s) is computed from uninitialised memory (MemorySanitizer shadow)", (long)off, n, tag);
        __msan_unpoison(out, n);
    }
#endif
    {
        uint64_t h = fnv1a(out, n, fnv1a(tag, strlen(tag), FNV_INIT)) | 1;
        int i;
        g_out_sum += h;
        for (i = 0; i < n_tagsums; ++i) if (tagsums[i].tag == tag || !strcmp(tagsums[i].tag, tag)) break;
        if (i == n_tagsums && n_tagsums < 48) { tagsums[n_tagsums].tag = tag; tagsums[n_tagsums].sum = 0; tagsums[n_tagsums].n = 0; ++n_tagsums; }
        if (i < n_tagsums) { tagsums[i].sum += h; ++tagsums[i].n; }
    }
}

/* Caller memory that ends (or begins) where readable memory ends: n writable bytes whose last byte is the last byte
 * before a PROT_NONE page (guard_tail) or whose first byte is the first byte after one (guard_head).  One mapping per
 * slot, grown on demand.  A library that reads or writes one byte outside what it was given faults. */
#include <sys/mman.h>
static struct { uint8_t *base; size_t cap; } gslot[8];
static uint8_t *guard_slot(int slot, size_t n)
{
    size_t need = (n + 4095) & ~(size_t)4095;
    if (need < 65536) need = 65536;
    if (slot < 0 || slot >= 8) engine_error("guard slot");
    if (gslot[slot].cap < need) {
        if (gslot[slot].base) munmap(gslot[slot].base, gslot[slot].cap + 8192);
        gslot[slot].base = mmap(NULL, need + 8192, PROT_READ | PROT_WRITE, MAP_PRIVATE | MAP_ANONYMOUS, -1, 0);
        if (gslot[slot].base == MAP_FAILED) engine_error("mmap of a guarded buffer failed");
        mprotect(gslot[slot].base, 4096, PROT_NONE);
        mprotect(gslot[slot].base + 4096 + need, 4096, PROT_NONE);
        gslot[slot].cap = need;
    }
    return gslot[slot].base + 4096;
}
uint8_t *guard_tail(int slot, size_t n) { uint8_t *b = guard_slot(slot, n); return b + gslot[slot].cap - n; }
uint8_t *guard_head(int slot, size_t n) { return guard_slot(slot, n); }
/* a slot that holds a pure input can be made read-only for the duration of a library call */
void guard_readonly(int slot, int on)
{
    if (slot >= 0 && slot < 8 && gslot[slot].base) mprotect(gslot[slot].base + 4096, gslot[slot].cap, on ? PROT_READ : PROT_READ | PROT_WRITE);
}

/* Crash attribution for the enumerating harnesses that have no forked runner: the case about to be executed is
 * registered (cheaply: a kind, a few integers, a pointer to the case bytes); a fatal signal inside it is reported as
 * that case's outcome, the results so far are written and the process ends with the violation exit status.  The
 * stand-alone replay of the case dies in the same way and so confirms it. */
#include <signal.h>
static struct { const char *prop, *kind; int n, v[6]; const uint8_t *buf; size_t m; int armed; } g_cg;
void crash_case(const char *prop, const char *kind, int n, const int *v, const uint8_t *buf, size_t m)
{
    int i;
    g_cg.prop = prop; g_cg.kind = kind; g_cg.n = n > 6 ? 6 : n; for (i = 0; i < g_cg.n; ++i) g_cg.v[i] = v[i];
    g_cg.buf = buf; g_cg.m = m; g_cg.armed = 1;
}
void crash_case_done(void) { g_cg.armed = 0; }
static void crash_handler(int sg)
{
    static char cd[900], sig[120]; size_t o; int i;
    const char *sn = sg == SIGSEGV ? "SIGSEGV" : (sg == SIGBUS ? "SIGBUS" : (sg == SIGILL ? "SIGILL" : (sg == SIGFPE ? "SIGFPE" : "SIGABRT")));
    if (!g_cg.armed) { signal(sg, SIG_DFL); raise(sg); return; }
    g_cg.armed = 0;
    o = (size_t)snprintf(cd, sizeof(cd), "%s", g_cg.kind);
    for (i = 0; i < g_cg.n; ++i) o += (size_t)snprintf(cd + o, sizeof(cd) - o, " %d", g_cg.v[i]);
    if (g_cg.buf && g_cg.m && g_cg.m < 200) { o += (size_t)snprintf(cd + o, sizeof(cd) - o, " "); for (i = 0; i < (int)g_cg.m; ++i) o += (size_t)snprintf(cd + o, sizeof(cd) - o, "%02x", g_cg.buf[i]); }
    snprintf(sig, sizeof(sig), "%s/crash/%s", g_cg.prop, sn);
    violation(sig, cd, "%s inside a library call of case '%s' (for example an access outside the memory the caller handed over)", sn, cd);
    _exit(finish());
}
void crash_guard_install(void)
{
    static uint8_t altstack[65536];
    stack_t ss; struct sigaction sa;
    ss.ss_sp = altstack; ss.ss_size = sizeof(altstack); ss.ss_flags = 0; sigaltstack(&ss, NULL);
    memset(&sa, 0, sizeof(sa)); sa.sa_handler = crash_handler; sa.sa_flags = SA_ONSTACK | SA_NODEFER;
    sigaction(SIGSEGV, &sa, NULL); sigaction(SIGBUS, &sa, NULL); sigaction(SIGILL, &sa, NULL); sigaction(SIGFPE, &sa, NULL);
}

int tier_thorough(void) { return !strcmp(g_opts.tier, "thorough"); }

uint32_t lcg_next(uint32_t *s)
{
    *s = *s * 1664525u + 1013904223u;
    return *s >> 8;
}

void lcg_fill(uint8_t *buf, size_t n, uint32_t seed)
{
    uint32_t s = seed * 2654435761u + 12345u;
    size_t i;
    for (i = 0; i < n; ++i) buf[i] = (uint8_t)(lcg_next(&s) >> 4);
}

void hex(char *dst, const uint8_t *src, size_t n)
{
    static const char d[] = "0123456789abcdef";
    size_t i;
    for (i = 0; i < n; ++i) { dst[2*i] = d[src[i] >> 4]; dst[2*i+1] = d[src[i] & 15]; }
    dst[2*n] = 0;
}

const char *hexs(const uint8_t *src, size_t n)
{
    static char bufs[8][1100];
    static int k;
    char *b = bufs[k++ & 7];
    if (n > 512) n = 512;
    hex(b, src, n);
    return b;
}

int unhex(uint8_t *dst, size_t cap, const char *src)
{
    size_t n = 0;
    while (src[0] && src[1] && n < cap) {
        unsigned v;
        if (sscanf(src, "%2x", &v) != 1) return -1;
        dst[n++] = (uint8_t)v;
        src += 2;
    }
    return (int)n;
}

uint64_t fnv1a(const void *data, size_t n, uint64_t h)
{
    const uint8_t *p = data;
    size_t i;
    for (i = 0; i < n; ++i) { h ^= p[i]; h *= 0x100000001b3ULL; }
    return h;
}

/* ---- distinct set: open addressing hash set of 64-bit digests ---- */
static uint64_t *dset;
static size_t dcap, dn;

static void dset_insert_raw(uint64_t *tab, size_t cap, uint64_t h)
{
    size_t i = (size_t)(h * 0x9E3779B97F4A7C15ULL) & (cap - 1);
    while (tab[i]) i = (i + 1) & (cap - 1);
    tab[i] = h;
}

void distinct_add_u64(uint64_t h)
{
    size_t i;
    if (!h) h = 1;
    if (!dset) { dcap = 1 << 16; dset = calloc(dcap, sizeof(uint64_t)); }
    if (dn * 2 >= dcap) {
        size_t ncap = dcap * 2, j;
        uint64_t *nt = calloc(ncap, sizeof(uint64_t));
        if (!nt) return;
        for (j = 0; j < dcap; ++j) if (dset[j]) dset_insert_raw(nt, ncap, dset[j]);
        free(dset); dset = nt; dcap = ncap;
    }
    i = (size_t)(h * 0x9E3779B97F4A7C15ULL) & (dcap - 1);
    while (dset[i]) { if (dset[i] == h) return; i = (i + 1) & (dcap - 1); }
    dset[i] = h; ++dn;
}

void distinct_add(const void *data, size_t n) { distinct_add_u64(fnv1a(data, n, FNV_INIT)); }
uint64_t distinct_count(void) { return dn; }

/* ---- samples, notes, violations ---- */
#define MAX_SAMPLES 8
#define MAX_VIOL 60
#define MAX_PER_SIG 3
static char *samples[MAX_SAMPLES]; static int nsamples;
typedef struct { char *sig, *casedesc, *detail; } Viol;
static Viol viols[MAX_VIOL]; static int nviols;
static char *notes[64]; static int nnotes;

static char *vfmt(const char *fmt, va_list ap)
{
    char tmp[4096];
    vsnprintf(tmp, sizeof(tmp), fmt, ap);
    return strdup(tmp);
}

void sample_add(const char *fmt, ...)
{
    va_list ap;
    if (nsamples >= MAX_SAMPLES) return;
    va_start(ap, fmt); samples[nsamples++] = vfmt(fmt, ap); va_end(ap);
}

void violation(const char *sig, const char *casedesc, const char *fmt, ...)
{
    va_list ap;
    int i, same = 0;
    ++g_cnt.violations;
    for (i = 0; i < nviols; ++i) if (!strcmp(viols[i].sig, sig)) ++same;
    if (same >= MAX_PER_SIG || nviols >= MAX_VIOL) return;
    viols[nviols].sig = strdup(sig);
    viols[nviols].casedesc = strdup(casedesc ? casedesc : "");
    va_start(ap, fmt); viols[nviols].detail = vfmt(fmt, ap); va_end(ap);
    ++nviols;
}

static void json_str(FILE *f, const char *s)
{
    fputc('"', f);
    for (; *s; ++s) {
        unsigned char c = (unsigned char)*s;
        if (c == '"' || c == '\\') { fputc('\\', f); fputc(c, f); }
        else if (c == '\n') fputs("\\n", f);
        else if (c < 0x20) fprintf(f, "\\u%04x", c);
        else fputc(c, f);
    }
    fputc('"', f);
}

void note_kv(const char *key, const char *fmt, ...)
{
    va_list ap; char *v; char tmp[4400];
    if (nnotes >= 64) return;
    va_start(ap, fmt); v = vfmt(fmt, ap); va_end(ap);
    /* store as key\0value packed with a separator */
    snprintf(tmp, sizeof(tmp), "S%s\x01%s", key, v);
    free(v);
    notes[nnotes++] = strdup(tmp);
}

void note_num(const char *key, double v)
{
    char tmp[256];
    if (nnotes >= 64) return;
    snprintf(tmp, sizeof(tmp), "N%s\x01%.17g", key, v);
    notes[nnotes++] = strdup(tmp);
}

void engine_error(const char *fmt, ...)
{
    va_list ap;
    fprintf(stdout, "ENGINE-ERROR: ");
    va_start(ap, fmt); vfprintf(stdout, fmt, ap); va_end(ap);
    fprintf(stdout, "\n");
    fflush(stdout);
    exit(EXIT_ENGINE);
}

int finish(void)
{
    FILE *f = g_opts.out ? fopen(g_opts.out, "w") : stdout;
    int i;
    if (!f) { perror("open out"); return EXIT_ENGINE; }
    fprintf(f, "{\"label\":"); json_str(f, g_opts.label);
    fprintf(f, ",\"evaluations\":%llu,\"distinct_nontrivial\":%llu,\"states\":%llu,"
               "\"transitions\":%llu,\"traces\":%llu,\"violation_count\":%llu",
            (unsigned long long)g_cnt.evaluations, (unsigned long long)distinct_count(),
            (unsigned long long)g_cnt.states, (unsigned long long)g_cnt.transitions,
            (unsigned long long)g_cnt.traces, (unsigned long long)g_cnt.violations);
    fprintf(f, ",\"out_sum\":\"%016llx\",\"out_sums\":{", (unsigned long long)g_out_sum);
    for (i = 0; i < n_tagsums; ++i) fprintf(f, "%s\"%s\":[\"%016llx\",%llu]", i ? "," : "", tagsums[i].tag, (unsigned long long)tagsums[i].sum, (unsigned long long)tagsums[i].n);
    fprintf(f, "}");
    fprintf(f, ",\"samples\":[");
    for (i = 0; i < nsamples; ++i) { if (i) fputc(',', f); json_str(f, samples[i]); }
    fprintf(f, "],\"notes\":{");
    for (i = 0; i < nnotes; ++i) {
        char *sep = strchr(notes[i], 1);
        if (i) fputc(',', f);
        *sep = 0;
        json_str(f, notes[i] + 1);
        fputc(':', f);
        if (notes[i][0] == 'S') json_str(f, sep + 1); else fputs(sep + 1, f);
        *sep = 1;
    }
    fprintf(f, "},\"violations\":[");
    for (i = 0; i < nviols; ++i) {
        if (i) fputc(',', f);
        fprintf(f, "{\"sig\":"); json_str(f, viols[i].sig);
        fprintf(f, ",\"case\":"); json_str(f, viols[i].casedesc);
        fprintf(f, ",\"detail\":"); json_str(f, viols[i].detail);
        fprintf(f, ",\"prelude\":%d", g_prelude_used);
        fputc('}', f);
    }
    fprintf(f, "]}\n");
    if (f != stdout) fclose(f);
    return g_cnt.violations ? EXIT_VIOLATION : EXIT_HELD;
}
