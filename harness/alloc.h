/*
 * Page allocator behind the library's allocation calls (link-time --wrap seam):
 * every library allocation gets its own slot of pages fenced by PROT_NONE guard
 * pages, a ledger entry, canaries in the slack, a wipe check at free(), and the
 * freed pages become PROT_NONE (use after free faults deterministically).
 * fail_at makes the k-th library allocation of a world return NULL.
 */
#ifndef VERIF_ALLOC_H
#define VERIF_ALLOC_H
#include <stddef.h>
#include <stdint.h>

typedef struct {
    uint8_t *ptr;       /* pointer handed to the library */
    size_t size;        /* requested size */
    int live;           /* allocated and not yet freed */
    int freed;          /* free() was called with ptr */
    int wiped;          /* at free(): 1 = every byte zero, 0 = some byte non-zero */
    int first_dirty;    /* offset of first non-zero byte at free(), or -1 */
    int canary_ok;      /* slack bytes untouched (checked at free and on demand) */
} AllocRec;

typedef struct {
    int foreign_free;   /* free() of a pointer the allocator never returned */
    int double_free;    /* free() of a block already freed */
    int interior_free;  /* free() of a pointer inside a block but not its base */
    int oversize;       /* request too large for a slot (engine limit) */
    int non_calloc;     /* allocations through malloc/realloc/memalign (noted) */
} LedgerErr;

extern volatile int g_in_lib;   /* 1 while the harness is inside a library call */
extern int g_alloc_skew_phase;  /* 0/1: whether odd or even library allocations land on 16 modulo 32 */
extern int g_fail_at;           /* 1-based index of the library allocation to fail; 0 = none */
extern int g_alloc_calls;       /* library allocation requests in this world */
extern LedgerErr g_lerr;

void verif_paint_stack(void);
#define LIB(stmt) do { verif_paint_stack(); g_in_lib = 1; stmt; g_in_lib = 0; } while (0)

void arena_reset(void);                 /* fresh world */
void arena_snapshot(void);              /* byte snapshot of ledger + every slot */
void arena_restore(void);               /* back to the snapshot (same addresses) */
int arena_count(void);
AllocRec *arena_rec(int i);
AllocRec *arena_find(const void *p);    /* record whose block contains p (live or freed) */
int arena_live(void);                   /* number of live blocks */
int arena_check_canaries(void);         /* 1 when all slack bytes of all blocks are intact */
int arena_contains(const void *p);      /* p anywhere inside the arena mapping */

#endif
