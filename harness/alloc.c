#include "alloc.h"
#include <string.h>
#include <stdlib.h>
#include <stdio.h>
#include <errno.h>
#include <sys/mman.h>
#include <unistd.h>

int g_alloc_skew_phase = 0;
void verif_paint_obj(void *p, size_t n);   /* common.c */
void verif_unpoison(void *p, size_t n);

#define NSLOTS 24
#define PAGE 4096
#define DATA_PAGES 1
#define SLOT_PAGES (DATA_PAGES + 2)
#define CANARY 0xCA

void *__real_calloc(size_t, size_t);
void *__real_malloc(size_t);
void *__real_realloc(void *, size_t);
void __real_free(void *);
int __real_posix_memalign(void **, size_t, size_t);
void *__real_aligned_alloc(size_t, size_t);
void *__real_memalign(size_t, size_t);

volatile int g_in_lib;
int g_fail_at;
int g_alloc_calls;
LedgerErr g_lerr;

static uint8_t *arena;
static AllocRec recs[NSLOTS];
static int nrecs;
static int dirty[NSLOTS];   /* slot was handed out since the last reset */
static int noaccess[NSLOTS];/* slot's data pages are currently PROT_NONE */

/* snapshot of the whole allocator state (used by the explorer to revisit a state) */
static struct {
    AllocRec recs[NSLOTS]; int nrecs, alloc_calls; LedgerErr lerr;
    int noaccess[NSLOTS];
    uint8_t data[NSLOTS][DATA_PAGES * PAGE];
} snap;

static uint8_t *slot_data(int i) { return arena + (size_t)i * SLOT_PAGES * PAGE + PAGE; }

static void arena_init(void)
{
    int i;
    size_t total = (size_t)NSLOTS * SLOT_PAGES * PAGE;
    arena = mmap(NULL, total, PROT_NONE, MAP_PRIVATE | MAP_ANONYMOUS, -1, 0);
    if (arena == MAP_FAILED) { perror("mmap arena"); _exit(3); }
    for (i = 0; i < NSLOTS; ++i) {
        if (mprotect(slot_data(i), DATA_PAGES * PAGE, PROT_READ | PROT_WRITE) != 0) { perror("mprotect"); _exit(3); }
        dirty[i] = 0;
    }
}

void arena_reset(void)
{
    int i;
    if (!arena) arena_init();
    for (i = 0; i < NSLOTS; ++i) {
        if (noaccess[i]) {
            mprotect(slot_data(i), DATA_PAGES * PAGE, PROT_READ | PROT_WRITE);
            noaccess[i] = 0;
        }
        dirty[i] = 0;
    }
    memset(recs, 0, sizeof(recs));
    nrecs = 0;
    g_alloc_calls = 0;
    memset(&g_lerr, 0, sizeof(g_lerr));
}

int arena_count(void) { return nrecs; }
AllocRec *arena_rec(int i) { return (i >= 0 && i < nrecs) ? &recs[i] : NULL; }

int arena_contains(const void *p)
{
    return arena && (const uint8_t *)p >= arena &&
           (const uint8_t *)p < arena + (size_t)NSLOTS * SLOT_PAGES * PAGE;
}

AllocRec *arena_find(const void *p)
{
    int i;
    for (i = 0; i < nrecs; ++i)
        if ((const uint8_t *)p >= recs[i].ptr && (const uint8_t *)p < recs[i].ptr + recs[i].size)
            return &recs[i];
    return NULL;
}

int arena_live(void)
{
    int i, n = 0;
    for (i = 0; i < nrecs; ++i) n += recs[i].live;
    return n;
}

static int canaries_ok(int i)
{
    uint8_t *d = slot_data(i), *e = d + DATA_PAGES * PAGE, *q;
    for (q = d; q < recs[i].ptr; ++q) if (*q != CANARY) return 0;
    for (q = recs[i].ptr + recs[i].size; q < e; ++q) if (*q != CANARY) return 0;
    return 1;
}

int arena_check_canaries(void)
{
    int i, ok = 1;
    for (i = 0; i < nrecs; ++i)
        if (recs[i].live) { recs[i].canary_ok = canaries_ok(i); ok &= recs[i].canary_ok; }
        else if (recs[i].freed && !recs[i].canary_ok) ok = 0;     /* found damaged when it was released (checked in free) */
    return ok;
}

void arena_snapshot(void)
{
    int i;
    memcpy(snap.recs, recs, sizeof(recs));
    snap.nrecs = nrecs; snap.alloc_calls = g_alloc_calls; snap.lerr = g_lerr;
    memcpy(snap.noaccess, noaccess, sizeof(noaccess));
    for (i = 0; i < nrecs; ++i)
        if (!noaccess[i]) memcpy(snap.data[i], slot_data(i), DATA_PAGES * PAGE);
}

void arena_restore(void)
{
    int i;
    for (i = 0; i < NSLOTS; ++i) {
        int want = i < snap.nrecs ? snap.noaccess[i] : 0;
        if (noaccess[i] && !want) { mprotect(slot_data(i), DATA_PAGES * PAGE, PROT_READ | PROT_WRITE); noaccess[i] = 0; }
        if (i < snap.nrecs && !want) memcpy(slot_data(i), snap.data[i], DATA_PAGES * PAGE);
        if (!noaccess[i] && want) { mprotect(slot_data(i), DATA_PAGES * PAGE, PROT_NONE); noaccess[i] = 1; }
        dirty[i] = i < snap.nrecs;
    }
    memcpy(recs, snap.recs, sizeof(recs));
    nrecs = snap.nrecs; g_alloc_calls = snap.alloc_calls; g_lerr = snap.lerr;
}

static void *lib_alloc(size_t size, size_t align, int zero)
{
    uint8_t *d, *p;
    int i;
    ++g_alloc_calls;
    if (g_fail_at && g_alloc_calls == g_fail_at) { errno = ENOMEM; return NULL; }
    if (!arena) arena_init();
    if (nrecs >= NSLOTS || size + align > DATA_PAGES * PAGE - 64) { ++g_lerr.oversize; errno = ENOMEM; return NULL; }
    if (align < 16) align = 16;
    i = nrecs++;
    d = slot_data(i);
    memset(d, CANARY, DATA_PAGES * PAGE);
    p = d + DATA_PAGES * PAGE - size;
    p = (uint8_t *)((uintptr_t)p & ~(uintptr_t)(align - 1));
    /* malloc promises 16-byte alignment, not more: consecutive requests alternate between addresses that
     * are 0 and 16 modulo 32 (which one comes first is g_alloc_skew_phase), so code that rounds a block up
     * to a 32-byte boundary itself is run with both amounts of leading slack */
    if (align <= 16 && ((g_alloc_calls + g_alloc_skew_phase) & 1) != (int)(((uintptr_t)p >> 4) & 1)) p -= 16;
    /* blocks the library did not ask to have cleared hold the paint pattern of this run
     * (0xA5 without --paint) and are poisoned under MemorySanitizer */
    if (zero) memset(p, 0, size); else verif_paint_obj(p, size);
    recs[i].ptr = p; recs[i].size = size; recs[i].live = 1; recs[i].freed = 0;
    recs[i].wiped = -1; recs[i].first_dirty = -1; recs[i].canary_ok = 1;
    dirty[i] = 1;
    return p;
}

static void lib_free(void *ptr)
{
    int i;
    size_t k;
    if (!ptr) return;
    for (i = 0; i < nrecs; ++i) {
        if (recs[i].ptr == (uint8_t *)ptr) {
            if (!recs[i].live) { ++g_lerr.double_free; return; }
            verif_unpoison(recs[i].ptr, recs[i].size);
            recs[i].wiped = 1;
            for (k = 0; k < recs[i].size; ++k)
                if (recs[i].ptr[k]) { recs[i].wiped = 0; recs[i].first_dirty = (int)k; break; }
            recs[i].canary_ok = canaries_ok(i);
            recs[i].live = 0; recs[i].freed = 1;
            mprotect(slot_data(i), DATA_PAGES * PAGE, PROT_NONE);
            noaccess[i] = 1;
            return;
        }
    }
    if (arena_find(ptr) || arena_contains(ptr)) { ++g_lerr.interior_free; return; }
    ++g_lerr.foreign_free;    /* recorded, not forwarded */
}

void *__wrap_calloc(size_t n, size_t sz)
{
    if (!g_in_lib) return __real_calloc(n, sz);
    return lib_alloc(n * sz, 16, 1);
}

void *__wrap_malloc(size_t sz)
{
    if (!g_in_lib) return __real_malloc(sz);
    ++g_lerr.non_calloc;
    return lib_alloc(sz, 16, 0);
}

void *__wrap_realloc(void *p, size_t sz)
{
    if (!g_in_lib) return __real_realloc(p, sz);
    ++g_lerr.non_calloc;
    if (!p) return lib_alloc(sz, 16, 0);
    {
        AllocRec *r = arena_find(p);
        void *q = lib_alloc(sz, 16, 0);
        if (q && r) memcpy(q, p, r->size < sz ? r->size : sz);
        if (q) lib_free(p);
        return q;
    }
}

void __wrap_free(void *p)
{
    if (!g_in_lib) {
        if (arena_contains(p)) { lib_free(p); return; }
        __real_free(p);
        return;
    }
    lib_free(p);
}

int __wrap_posix_memalign(void **out, size_t align, size_t sz)
{
    void *p;
    if (!g_in_lib) return __real_posix_memalign(out, align, sz);
    ++g_lerr.non_calloc;
    p = lib_alloc(sz, align, 0);
    if (!p) return ENOMEM;
    *out = p;
    return 0;
}

void *__wrap_aligned_alloc(size_t align, size_t sz)
{
    if (!g_in_lib) return __real_aligned_alloc(align, sz);
    ++g_lerr.non_calloc;
    return lib_alloc(sz, align, 0);
}

void *__wrap_memalign(size_t align, size_t sz)
{
    if (!g_in_lib) return __real_memalign(align, sz);
    ++g_lerr.non_calloc;
    return lib_alloc(sz, align, 0);
}
