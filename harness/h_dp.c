/*
 * dp: data-path differential exploration (C01, C02, C03 part i, C07, C10).
 * Every case of the structured families is executed on the real library and on
 * the reference model; nothing is sampled.
 */
#include "common.h"
#include <string.h>
#include <stdlib.h>
#include <stddef.h>

const void *ref_skinny_vector(int i, int *bs, int *klen, const uint8_t **pt, const uint8_t **ct);
const void *ref_mantis_vector(int i, int *rounds, const uint8_t **tweak, const uint8_t **pt, const uint8_t **ct);

static const char *VNAME[6] = {"skinny64-64","skinny64-128","skinny64-192",
                               "skinny128-128","skinny128-256","skinny128-384"};

/* ------------------------------------------------------------------ C01 */

typedef struct { int vi, bs, klen, dir; } C01Ctx;

/* The library is handed the key in a buffer of its own whose bytes beyond the key are a fixed non-zero
 * pattern: what follows the key in memory is then the same in the enumeration and in a replay, and a
 * key-setting function that looks beyond the stated length computes something the specification does not. */
static const uint8_t *isolated_key(const uint8_t *key, int klen)
{
    static uint8_t kiso[160];
    memset(kiso, 0xA5, sizeof(kiso));
    memcpy(kiso, key, (size_t)klen);
    return kiso;
}

static int g_sched_changed;
/* the byte copies live at every natural alignment of the type within 32 bytes (a schedule on the caller's stack is
 * aligned for its members, not for vector loads) */
static unsigned g_copy_toggle; static uint8_t g_copy_pool[sizeof(Skinny128Key_t) + sizeof(Skinny64Key_t) + 64] __attribute__((aligned(64)));
/* ... and, every fourth one, flush against an unreadable page: ending right before one, or starting right after one */
#define COPY_AT(type, sel) (((unsigned)(sel) & 3) == 3 ? (type *)(void *)((((unsigned)(sel) >> 2) & 1) ? guard_tail(0, sizeof(type)) : guard_head(1, sizeof(type))) \
                            : (type *)(void *)(g_copy_pool + _Alignof(type) * (((unsigned)(sel) >> 2) % (32u / _Alignof(type)))))   /* set when a block function modified the schedule it takes as const */

static int real_skinny(int bs, const uint8_t *key, int klen, int dir,
                       const uint8_t *in, uint8_t *out)
{
    /* every eighth case pair: the key bytes touch the schedule object (a struct holding both, or neighbours on the
     * stack) - directly before it, directly after it; neither overlaps it */
    int adjsel = (in[bs - 2] ^ key[klen / 2] ^ (in[0] >> 3)) & 7;
    static struct { uint8_t pre[64]; Skinny128Key_t ks; uint8_t post[64]; } adj128;
    static struct { uint8_t pre[64]; Skinny64Key_t ks; uint8_t post[64]; } adj64;
    key = isolated_key(key, klen);
    if (bs == 16) {
        Skinny128Key_t ks;
        verif_paint_obj(&ks, sizeof(ks)); verif_paint_stack();
        if (adjsel >= 6) {
            uint8_t *kp = adjsel == 6 ? adj128.pre + 64 - klen : adj128.post;
            memset(&adj128, 0xA5, sizeof(adj128)); memcpy(kp, key, (size_t)klen);
            if (skinny128_set_key(&adj128.ks, kp, (unsigned)klen) != 1) return 0;
            memcpy(&ks, &adj128.ks, sizeof(ks));
        } else
        if (skinny128_set_key(&ks, key, (unsigned)klen) != 1) return 0;
        out_digest("skinny128-schedule", ks.schedule, ks.rounds * sizeof(ks.schedule[0]));
        verif_paint_stack();
        { Skinny128Key_t b4, *use = &ks; memcpy(&b4, &ks, sizeof(ks));
          /* every other case uses a byte copy of the schedule while the object set_key filled in holds a pattern:
           * the block functions get a pointer to a value, and the value is all they may depend on */
          if ((g_copy_toggle = (unsigned)(in[0] ^ in[bs - 1] ^ key[klen - 1] ^ 1)) & 1) { use = COPY_AT(Skinny128Key_t, in[1] ^ key[0] ^ (in[0] >> 1)); memcpy(use, &ks, sizeof(ks)); memset(&ks, 0x5C, sizeof(ks)); }
          if (dir) skinny128_ecb_decrypt(out, in, use); else skinny128_ecb_encrypt(out, in, use);
          if (memcmp(&b4.schedule, &use->schedule, b4.rounds * sizeof(b4.schedule[0])) != 0 || b4.rounds != use->rounds) g_sched_changed = 1;
          memcpy(&ks, &b4, sizeof(ks)); }
        out_digest("skinny128-block", out, 16);
    } else {
        Skinny64Key_t ks;
        verif_paint_obj(&ks, sizeof(ks)); verif_paint_stack();
        if (adjsel >= 6) {
            uint8_t *kp = adjsel == 6 ? adj64.pre + 64 - klen : adj64.post;
            memset(&adj64, 0xA5, sizeof(adj64)); memcpy(kp, key, (size_t)klen);
            if (skinny64_set_key(&adj64.ks, kp, (unsigned)klen) != 1) return 0;
            memcpy(&ks, &adj64.ks, sizeof(ks));
        } else
        if (skinny64_set_key(&ks, key, (unsigned)klen) != 1) return 0;
        out_digest("skinny64-schedule", ks.schedule, ks.rounds * sizeof(ks.schedule[0]));
        verif_paint_stack();
        { Skinny64Key_t b4, *use = &ks; memcpy(&b4, &ks, sizeof(ks));
          if ((g_copy_toggle = (unsigned)(in[0] ^ in[bs - 1] ^ key[klen - 1] ^ 1)) & 1) { use = COPY_AT(Skinny64Key_t, in[1] ^ key[0] ^ (in[0] >> 1)); memcpy(use, &ks, sizeof(ks)); memset(&ks, 0x5C, sizeof(ks)); }
          if (dir) skinny64_ecb_decrypt(out, in, use); else skinny64_ecb_encrypt(out, in, use);
          if (memcmp(&b4.schedule, &use->schedule, b4.rounds * sizeof(b4.schedule[0])) != 0 || b4.rounds != use->rounds) g_sched_changed = 1;
          memcpy(&ks, &b4, sizeof(ks)); }
        out_digest("skinny64-block", out, 8);
    }
    return 1;
}

static void c01_case(const uint8_t *buf, size_t m, void *arg)
{
    C01Ctx *c = arg;
    uint8_t real[16], ref[16];
    char sig[96], cd[400];
    const uint8_t *key = buf, *blk = buf + c->klen;
    uint64_t h;
    (void)m;
    ++g_cnt.evaluations;
    { int cv[2]; cv[0] = c->vi; cv[1] = c->dir; crash_case("C01", "c01", 2, cv, buf, m); }
    memset(real, 0, sizeof(real));
    if (!real_skinny(c->bs, key, c->klen, c->dir, blk, real)) {
        snprintf(sig, sizeof(sig), "C01/%s/set_key-rejected", VNAME[c->vi]);
        snprintf(cd, sizeof(cd), "c01 %d %d %s", c->vi, c->dir, hexs(buf, m));
        violation(sig, cd, "set_key returned 0 for a primary key size %d", c->klen);
        return;
    }
    if (g_sched_changed) {
        g_sched_changed = 0;
        snprintf(sig, sizeof(sig), "C01/%s/block-call-changed-schedule", VNAME[c->vi]);
        snprintf(cd, sizeof(cd), "c01 %d %d %s", c->vi, c->dir, hexs(buf, m));
        violation(sig, cd, "the key schedule (a const argument) was modified by the %s call", c->dir ? "decrypt" : "encrypt");
    }
    if (c->dir) ref_skinny_key_decrypt(c->bs, key, c->klen, blk, ref);
    else        ref_skinny_key_encrypt(c->bs, key, c->klen, blk, ref);
    h = fnv1a(buf, m, FNV_INIT + (uint64_t)(c->vi * 2 + c->dir));
    if (memcmp(real, blk, (size_t)c->bs) != 0) distinct_add_u64(fnv1a(real, (size_t)c->bs, h));
    if (memcmp(real, ref, (size_t)c->bs) != 0) {
        snprintf(sig, sizeof(sig), "C01/%s/%s", VNAME[c->vi], c->dir ? "decrypt" : "encrypt");
        snprintf(cd, sizeof(cd), "c01 %d %d %s", c->vi, c->dir, hexs(buf, m));
        violation(sig, cd, "key=%s in=%s real=%s spec=%s", hexs(key, (size_t)c->klen),
                  hexs(blk, (size_t)c->bs), hexs(real, (size_t)c->bs), hexs(ref, (size_t)c->bs));
    }
}

static void run_c01(void)
{
    int vi, dir;
    if (g_opts.replay) {
        C01Ctx c; uint8_t buf[64]; char hx[200]; int n;
        const uint8_t *pt, *ct;
        if (sscanf(g_opts.replay, "c01 %d %d %199s", &c.vi, &c.dir, hx) != 3) engine_error("bad replay");
        ref_skinny_vector(c.vi, &c.bs, &c.klen, &pt, &ct);
        n = unhex(buf, sizeof(buf), hx);
        if (n != c.klen + c.bs) engine_error("bad replay length");
        g_opts.nshards = 1; g_opts.shard = 0;
        c01_case(buf, (size_t)n, &c);
        return;
    }
    for (vi = 0; vi < 6; ++vi) {
        C01Ctx c; const uint8_t *key, *pt, *ct; uint8_t vec[64];
        key = ref_skinny_vector(vi, &c.bs, &c.klen, &pt, &ct);
        c.vi = vi;
        for (dir = 0; dir < 2; ++dir) {
            uint64_t n;
            c.dir = dir;
            memcpy(vec, key, (size_t)c.klen);
            memcpy(vec + c.klen, dir ? ct : pt, (size_t)c.bs);
            n = fam_iterate((size_t)(c.klen + c.bs), vec, tier_thorough(), c01_case, &c);
            if (vi == 0 && dir == 0) note_num("cases_per_smallest_variant_direction", (double)n);
            if (vi == 5 && dir == 0) note_num("cases_per_largest_variant_direction", (double)n);
        }
        sample_add("%s encrypt key=%s block=%s (published vector background of the families)",
                   VNAME[vi], hexs(key, (size_t)c.klen), hexs(pt, (size_t)c.bs));
    }
    /* Re-use of one schedule object: every ordered pair (and a few triples) of key lengths on the same
     * Skinny128Key_t / Skinny64Key_t - longer after shorter, shorter after longer, the in-between sizes -
     * with related and unrelated key bytes; the result must be the specification's for the LAST key. */
    if (g_opts.shard == 0) {
        static const int L128[] = {16, 32, 48, 24, 40, 17, 47}, L64[] = {8, 16, 24, 12, 20, 9, 23};
        int bsi, a, b, c3, rel, dir2;
        for (bsi = 0; bsi < 2; ++bsi) for (a = 0; a < 7; ++a) for (b = 0; b < 7; ++b) for (c3 = -1; c3 < 7; c3 += 4) for (rel = 0; rel < 3; ++rel) for (dir2 = 0; dir2 < 2; ++dir2) {
            const int *L = bsi ? L64 : L128; int bs = bsi ? 8 : 16, lens[3], nl = 0, i2, okk = 1;
            uint8_t k[3][48], blk[16], real[16], want[16], padded[48]; char cd[120];
            Skinny128Key_t s128; Skinny64Key_t s64;
            lens[nl++] = L[a]; lens[nl++] = L[b]; if (c3 >= 0) lens[nl++] = L[c3];
            for (i2 = 0; i2 < nl; ++i2) {
                if (rel == 0) lcg_fill(k[i2], 48, 3100 + (uint32_t)i2);                       /* unrelated keys */
                else if (rel == 1) { lcg_fill(k[i2], 48, 3100); }                            /* the same bytes, another length */
                else { lcg_fill(k[i2], 48, 3100); memset(k[i2] + L[a], 0, (size_t)(48 - L[a])); }   /* the first key followed by zeros */
            }
            lcg_fill(blk, 16, 3200 + (uint32_t)(a * 7 + b));
            verif_paint_obj(&s128, sizeof(s128)); verif_paint_obj(&s64, sizeof(s64)); verif_paint_stack();
            for (i2 = 0; i2 < nl; ++i2) {
                const uint8_t *kp = isolated_key(k[i2], lens[i2]);
                okk &= bsi ? skinny64_set_key(&s64, kp, (unsigned)lens[i2]) : skinny128_set_key(&s128, kp, (unsigned)lens[i2]);
            }
            if (bsi) { if (dir2) skinny64_ecb_decrypt(real, blk, &s64); else skinny64_ecb_encrypt(real, blk, &s64); }
            else { if (dir2) skinny128_ecb_decrypt(real, blk, &s128); else skinny128_ecb_encrypt(real, blk, &s128); }
            {   /* the specification for the last key, zero-padded to its primary size */
                int ll = lens[nl - 1], prim = ll <= bs ? bs : (ll <= 2 * bs ? 2 * bs : 3 * bs);
                memset(padded, 0, sizeof(padded)); memcpy(padded, k[nl - 1], (size_t)ll);
                if (dir2) ref_skinny_key_decrypt(bs, padded, prim, blk, want); else ref_skinny_key_encrypt(bs, padded, prim, blk, want);
            }
            ++g_cnt.evaluations;
            snprintf(cd, sizeof(cd), "c01rekey %d %d %d %d %d %d", bsi, a, b, c3, rel, dir2);
            distinct_add_u64(fnv1a(cd, strlen(cd), 101));
            if (!okk || memcmp(real, want, (size_t)bs) != 0) {
                char sg[96]; snprintf(sg, sizeof(sg), "C01/skinny%d/re-keyed-schedule-object/%s", bs * 8, dir2 ? "decrypt" : "encrypt");
                violation(sg, "", "set_key with lengths %d, %d%s%.0d on one object (%s keys), then %s: got %s, specification for the last key %s (set_key ok=%d)",
                          lens[0], lens[1], nl > 2 ? ", " : "", nl > 2 ? lens[2] : 0, rel == 0 ? "unrelated" : (rel == 1 ? "same bytes, other length" : "first key followed by zeros"),
                          dir2 ? "decrypt" : "encrypt", hexs(real, (size_t)bs), hexs(want, (size_t)bs), okk);
            }
        }
    }
}

/* ------------------------------------------------------------------ C02 */

typedef struct { int rounds, mode, path; } C02Ctx;   /* path 0: stored tweak, 1: per-call */

static void c02_case(const uint8_t *buf, size_t m, void *arg)
{
    C02Ctx *c = arg;
    const uint8_t *key = buf, *tweak = buf + 16, *blk = buf + 24;
    uint8_t real[8], ref[8];
    char sig[96], cd[200];
    MantisKey_t ks, ks_before;
    (void)m;
    ++g_cnt.evaluations;
    { int cv[3]; cv[0] = c->rounds; cv[1] = c->mode; cv[2] = c->path; crash_case("C02", "c02", 3, cv, buf, 32); }
    verif_paint_obj(&ks, sizeof(ks)); verif_paint_stack();
    if (mantis_set_key(&ks, key, 16, (unsigned)c->rounds,
                       c->mode ? MANTIS_DECRYPT : MANTIS_ENCRYPT) != 1) {
        snprintf(cd, sizeof(cd), "c02 %d %d %d %s", c->rounds, c->mode, c->path, hexs(buf, 32));
        violation("C02/set_key-rejected", cd, "mantis_set_key returned 0 for rounds=%d", c->rounds);
        return;
    }
    if (c->path == 0) {
        if (mantis_set_tweak(&ks, tweak, 8) != 1) {
            snprintf(cd, sizeof(cd), "c02 %d %d %d %s", c->rounds, c->mode, c->path, hexs(buf, 32));
            violation("C02/set_tweak-rejected", cd, "mantis_set_tweak returned 0");
            return;
        }
        verif_paint_stack();
        memcpy(&ks_before, &ks, sizeof(ks));
        mantis_ecb_crypt(real, blk, &ks);
    } else {
        verif_paint_stack();
        memcpy(&ks_before, &ks, sizeof(ks));
        mantis_ecb_crypt_tweaked(real, blk, tweak, &ks);
    }
    if (memcmp(&ks_before, &ks, offsetof(MantisKey_t, rounds) + sizeof(unsigned)) != 0) {
        snprintf(cd, sizeof(cd), "c02 %d %d %d %s", c->rounds, c->mode, c->path, hexs(buf, 32));
        violation("C02/block-call-changed-schedule", cd, "the key schedule (a const argument) was modified by %s", c->path ? "mantis_ecb_crypt_tweaked" : "mantis_ecb_crypt");
    }
    out_digest("mantis-schedule", &ks, offsetof(MantisKey_t, rounds) + sizeof(unsigned));
    out_digest("mantis-block", real, 8);
    if (c->mode) ref_mantis_decrypt(key, tweak, c->rounds, blk, ref);
    else         ref_mantis_encrypt(key, tweak, c->rounds, blk, ref);
    if (memcmp(real, blk, 8) != 0)
        distinct_add_u64(fnv1a(real, 8, fnv1a(buf, 32, FNV_INIT + (uint64_t)(c->rounds * 4 + c->mode * 2 + c->path))));
    if (memcmp(real, ref, 8) != 0) {
        snprintf(sig, sizeof(sig), "C02/mantis%d/%s/%s", c->rounds, c->mode ? "decrypt" : "encrypt",
                 c->path ? "per-call-tweak" : "stored-tweak");
        snprintf(cd, sizeof(cd), "c02 %d %d %d %s", c->rounds, c->mode, c->path, hexs(buf, 32));
        violation(sig, cd, "key=%s tweak=%s in=%s real=%s spec=%s", hexs(key, 16), hexs(tweak, 8),
                  hexs(blk, 8), hexs(real, 8), hexs(ref, 8));
    }
    if (c->path == 1) {
        /* the same call with the tweak as the block, one buffer for all three arguments (in place, and the per-call
         * tweak is an input like the block): the specification cipher of the tweak under itself */
        uint8_t one[8];
        memcpy(one, tweak, 8);
        mantis_ecb_crypt_tweaked(one, one, one, &ks);
        if (c->mode) ref_mantis_decrypt(key, tweak, c->rounds, tweak, ref);
        else         ref_mantis_encrypt(key, tweak, c->rounds, tweak, ref);
        ++g_cnt.evaluations;
        if (memcmp(one, ref, 8) != 0) {
            snprintf(sig, sizeof(sig), "C02/mantis%d/%s/per-call-tweak-is-the-block", c->rounds, c->mode ? "decrypt" : "encrypt");
            snprintf(cd, sizeof(cd), "c02 %d %d %d %s", c->rounds, c->mode, c->path, hexs(buf, 32));
            violation(sig, cd, "key=%s, one buffer %s as tweak, input and output: got %s, specification %s", hexs(key, 16), hexs(tweak, 8), hexs(one, 8), hexs(ref, 8));
        }
    }
}

/* fresh schedule == zero tweak; null tweak == zero tweak; over key||block families */
typedef struct { int rounds, mode, how; } C02zCtx;  /* how 0: fresh, 1: null after non-zero */

static void c02z_case(const uint8_t *buf, size_t m, void *arg)
{
    C02zCtx *c = arg;
    const uint8_t *key = buf, *blk = buf + 16;
    static const uint8_t zero[8] = {0};
    static const uint8_t junk[8] = {0xde,0xad,0xbe,0xef,0x01,0x23,0x45,0x67};
    uint8_t real[8], ref[8];
    char cd[200];
    MantisKey_t ks;
    (void)m;
    ++g_cnt.evaluations;
    { int cv[3]; cv[0] = c->rounds; cv[1] = c->mode; cv[2] = c->how; crash_case("C02", "c02z", 3, cv, buf, 24); }
    verif_paint_obj(&ks, sizeof(ks)); verif_paint_stack();
    if (mantis_set_key(&ks, key, 16, (unsigned)c->rounds, c->mode ? MANTIS_DECRYPT : MANTIS_ENCRYPT) != 1) {
        violation("C02/set_key-rejected", "", "mantis_set_key returned 0");
        return;
    }
    if (c->how == 1) {
        int r1 = mantis_set_tweak(&ks, junk, 8);
        int r2 = mantis_set_tweak(&ks, NULL, 8);
        if (r1 != 1 || r2 != 1) {
            snprintf(cd, sizeof(cd), "c02z %d %d %d %s", c->rounds, c->mode, c->how, hexs(buf, 24));
            violation("C02/null-tweak-rejected", cd, "mantis_set_tweak(NULL) returned %d", r2);
            return;
        }
    }
    verif_paint_stack();
    mantis_ecb_crypt(real, blk, &ks);
    out_digest("mantis-block-zero-tweak", real, 8);
    if (c->mode) ref_mantis_decrypt(key, zero, c->rounds, blk, ref);
    else         ref_mantis_encrypt(key, zero, c->rounds, blk, ref);
    distinct_add_u64(fnv1a(real, 8, fnv1a(buf, 24, 77 + (uint64_t)(c->rounds * 4 + c->mode * 2 + c->how))));
    if (memcmp(real, ref, 8) != 0) {
        snprintf(cd, sizeof(cd), "c02z %d %d %d %s", c->rounds, c->mode, c->how, hexs(buf, 24));
        violation(c->how ? "C02/null-tweak-not-zero" : "C02/fresh-schedule-tweak-not-zero", cd,
                  "key=%s in=%s real=%s spec(zero tweak)=%s", hexs(key, 16), hexs(blk, 8),
                  hexs(real, 8), hexs(ref, 8));
    }
}

static void run_c02(void)
{
    C02Ctx c; C02zCtx z;
    const uint8_t *key, *tweak, *pt, *ct; int r;
    uint8_t vec[32];
    if (g_opts.replay) {
        uint8_t buf[32]; char hx[100];
        g_opts.nshards = 1; g_opts.shard = 0;
        if (sscanf(g_opts.replay, "c02 %d %d %d %99s", &c.rounds, &c.mode, &c.path, hx) == 4) {
            if (unhex(buf, 32, hx) != 32) engine_error("bad replay");
            c02_case(buf, 32, &c);
        } else if (sscanf(g_opts.replay, "c02z %d %d %d %99s", &z.rounds, &z.mode, &z.how, hx) == 4) {
            if (unhex(buf, 24, hx) != 24) engine_error("bad replay");
            c02z_case(buf, 24, &z);
        } else engine_error("bad replay");
        return;
    }
    for (c.rounds = 5; c.rounds <= 8; ++c.rounds) {
        key = ref_mantis_vector(c.rounds - 5, &r, &tweak, &pt, &ct);
        for (c.mode = 0; c.mode < 2; ++c.mode)
            for (c.path = 0; c.path < 2; ++c.path) {
                memcpy(vec, key, 16); memcpy(vec + 16, tweak, 8);
                memcpy(vec + 24, c.mode ? ct : pt, 8);
                fam_iterate(32, vec, tier_thorough(), c02_case, &c);
            }
        sample_add("mantis%d key=%s tweak=%s block=%s (vector background)", c.rounds,
                   hexs(key, 16), hexs(tweak, 8), hexs(pt, 8));
        for (z.mode = 0; z.mode < 2; ++z.mode)
            for (z.how = 0; z.how < 2; ++z.how) {
                z.rounds = c.rounds;
                memcpy(vec, key, 16); memcpy(vec + 16, pt, 8);
                fam_iterate(24, vec, 0, c02z_case, &z);
            }
    }
}

/* ------------------------------------------------------------------ C03 (part i, single-block entry points) */

typedef struct { int vi, bs, klen; } C03Ctx;

static void c03_case(const uint8_t *buf, size_t m, void *arg)
{
    C03Ctx *c = arg;
    const uint8_t *key = buf, *blk = buf + c->klen;
    uint8_t t[16], u[16];
    char sig[96], cd[400];
    int order;
    (void)m;
    { int cv[1]; cv[0] = c->vi; crash_case("C03", "c03", 1, cv, buf, m); }
    for (order = 0; order < 2; ++order) {   /* 0: D(E(x)), 1: E(D(y)) */
        ++g_cnt.evaluations;
        if (!real_skinny(c->bs, key, c->klen, order, blk, t) || !real_skinny(c->bs, key, c->klen, !order, t, u)) {
            violation("C03/set_key-rejected", "", "set_key rejected a primary size"); return;
        }
        if (memcmp(t, blk, (size_t)c->bs) != 0) distinct_add_u64(fnv1a(t, (size_t)c->bs, fnv1a(buf, m, (uint64_t)(c->vi * 2 + order))));
        if (memcmp(u, blk, (size_t)c->bs) != 0) {
            snprintf(sig, sizeof(sig), "C03/%s/%s", VNAME[c->vi], order ? "E(D(y))" : "D(E(x))");
            snprintf(cd, sizeof(cd), "c03 %d %s", c->vi, hexs(buf, m));
            violation(sig, cd, "key=%s block=%s round trip gives %s", hexs(key, (size_t)c->klen), hexs(blk, (size_t)c->bs), hexs(u, (size_t)c->bs));
        }
    }
}

typedef struct { int rounds; } C03mCtx;

static void c03m_case(const uint8_t *buf, size_t m, void *arg)
{
    C03mCtx *c = arg;
    const uint8_t *key = buf, *tweak = buf + 16, *blk = buf + 24;
    MantisKey_t e, d, s;
    uint8_t t[8], u[8], w[8];
    char sig[96], cd[200];
    int order;
    (void)m;
    { int cv[1]; cv[0] = c->rounds; crash_case("C03", "c03m", 1, cv, buf, 32); }
    memset(&e, 0x11, sizeof(e)); memset(&d, 0x22, sizeof(d));
    if (mantis_set_key(&e, key, 16, (unsigned)c->rounds, MANTIS_ENCRYPT) != 1 ||
        mantis_set_key(&d, key, 16, (unsigned)c->rounds, MANTIS_DECRYPT) != 1 ||
        mantis_set_tweak(&e, tweak, 8) != 1 || mantis_set_tweak(&d, tweak, 8) != 1) {
        violation("C03/mantis/setup-rejected", "", "set_key/set_tweak returned 0"); return;
    }
    snprintf(cd, sizeof(cd), "c03m %d %s", c->rounds, hexs(buf, 32));
    for (order = 0; order < 2; ++order) {
        ++g_cnt.evaluations;
        mantis_ecb_crypt(t, blk, order ? &d : &e);
        mantis_ecb_crypt(u, t, order ? &e : &d);
        mantis_ecb_crypt_tweaked(w, t, tweak, order ? &e : &d);
        if (memcmp(t, blk, 8) != 0) distinct_add_u64(fnv1a(t, 8, fnv1a(buf, 32, (uint64_t)(c->rounds * 2 + order))));
        if (memcmp(u, blk, 8) != 0 || memcmp(w, blk, 8) != 0) {
            snprintf(sig, sizeof(sig), "C03/mantis%d/%s", c->rounds, order ? "E(D(y))" : "D(E(x))");
            violation(sig, cd, "key=%s tweak=%s block=%s round trip gives %s / %s", hexs(key, 16), hexs(tweak, 8), hexs(blk, 8), hexs(u, 8), hexs(w, 8));
        }
    }
    /* one swap == the inverse with the tweak preserved */
    s = e;
    mantis_swap_modes(&s);
    mantis_ecb_crypt(t, blk, &e);
    mantis_ecb_crypt(u, t, &s);
    ++g_cnt.evaluations;
    if (memcmp(u, blk, 8) != 0) {
        snprintf(sig, sizeof(sig), "C03/mantis%d/swap_modes", c->rounds);
        violation(sig, cd, "swapped schedule does not invert the original: key=%s tweak=%s block=%s", hexs(key, 16), hexs(tweak, 8), hexs(blk, 8));
    }
}

static void run_c03(void)
{
    int vi, r;
    if (g_opts.replay) {
        C03Ctx c; C03mCtx mc; uint8_t buf[64]; char hx[200]; int n; const uint8_t *pt, *ct;
        g_opts.nshards = 1; g_opts.shard = 0;
        if (sscanf(g_opts.replay, "c03 %d %199s", &c.vi, hx) == 2) {
            ref_skinny_vector(c.vi, &c.bs, &c.klen, &pt, &ct);
            n = unhex(buf, sizeof(buf), hx);
            c03_case(buf, (size_t)n, &c);
        } else if (sscanf(g_opts.replay, "c03m %d %199s", &mc.rounds, hx) == 2) {
            n = unhex(buf, sizeof(buf), hx);
            c03m_case(buf, (size_t)n, &mc);
        } else engine_error("bad replay");
        return;
    }
    for (vi = 0; vi < 6; ++vi) {
        C03Ctx c; const uint8_t *key, *pt, *ct; uint8_t vec[64];
        key = ref_skinny_vector(vi, &c.bs, &c.klen, &pt, &ct);
        c.vi = vi;
        memcpy(vec, key, (size_t)c.klen); memcpy(vec + c.klen, pt, (size_t)c.bs);
        fam_iterate((size_t)(c.klen + c.bs), vec, tier_thorough(), c03_case, &c);
        sample_add("%s D(E(x)) and E(D(x)) over families on key=%s block=%s", VNAME[vi], hexs(key, (size_t)c.klen), hexs(pt, (size_t)c.bs));
    }
    for (r = 5; r <= 8; ++r) {
        C03mCtx c; const uint8_t *key, *tweak, *pt, *ct; int rr; uint8_t vec[32];
        key = ref_mantis_vector(r - 5, &rr, &tweak, &pt, &ct);
        c.rounds = r;
        memcpy(vec, key, 16); memcpy(vec + 16, tweak, 8); memcpy(vec + 24, pt, 8);
        fam_iterate(32, vec, tier_thorough(), c03m_case, &c);
    }
}

/* ------------------------------------------------------------------ C04 (conformance of the tweakable cipher on fresh schedules) */

typedef struct { int bs, klen, dir, how; } C04Ctx;   /* how 0: set_tweak(full), 1: fresh schedule (tweak region forced to zero) */

static void c04_case(const uint8_t *buf, size_t m, void *arg)
{
    C04Ctx *c = arg;
    uint8_t tweak[16], real[16], ref[16];
    const uint8_t *key = buf + c->bs, *blk = buf + c->bs + c->klen;
    char sig[96], cd[400];
    int ok;
    ++g_cnt.evaluations;
    { int cv[4]; cv[0] = c->bs; cv[1] = c->klen; cv[2] = c->dir; cv[3] = c->how; crash_case("C04", "c04", 4, cv, buf, m); }
    memcpy(tweak, buf, (size_t)c->bs);
    if (c->how == 1) memset(tweak, 0, 16);
    if (c->bs == 16) {
        Skinny128TweakedKey_t tk; verif_paint_obj(&tk, sizeof(tk)); verif_paint_stack();
        ok = skinny128_set_tweaked_key(&tk, isolated_key(key, c->klen), (unsigned)c->klen) == 1;
        verif_paint_stack();
        if (ok && c->how == 0) ok = skinny128_set_tweak(&tk, tweak, 16) == 1;
        if (ok) { out_digest("skinny128-tweaked-schedule", tk.ks.schedule, tk.ks.rounds * sizeof(tk.ks.schedule[0])); out_digest("skinny128-tweak", tk.tweak, 16); verif_paint_stack(); }
        if (ok) { if (c->dir) skinny128_ecb_decrypt(real, blk, &tk.ks); else skinny128_ecb_encrypt(real, blk, &tk.ks); out_digest("skinny128-tweaked-block", real, 16); }
    } else {
        Skinny64TweakedKey_t tk; verif_paint_obj(&tk, sizeof(tk)); verif_paint_stack();
        ok = skinny64_set_tweaked_key(&tk, isolated_key(key, c->klen), (unsigned)c->klen) == 1;
        verif_paint_stack();
        if (ok && c->how == 0) ok = skinny64_set_tweak(&tk, tweak, 8) == 1;
        if (ok) { out_digest("skinny64-tweaked-schedule", tk.ks.schedule, tk.ks.rounds * sizeof(tk.ks.schedule[0])); out_digest("skinny64-tweak", tk.tweak, 8); verif_paint_stack(); }
        if (ok) { if (c->dir) skinny64_ecb_decrypt(real, blk, &tk.ks); else skinny64_ecb_encrypt(real, blk, &tk.ks); out_digest("skinny64-tweaked-block", real, 8); }
    }
    snprintf(cd, sizeof(cd), "c04 %d %d %d %d %s", c->bs, c->klen, c->dir, c->how, hexs(buf, m));
    if (!ok) { violation("C04/setup-rejected", cd, "set_tweaked_key/set_tweak returned 0"); return; }
    if (c->dir) ref_skinny_tweak_decrypt(c->bs, key, c->klen, tweak, blk, ref);
    else ref_skinny_tweak_encrypt(c->bs, key, c->klen, tweak, blk, ref);
    if (memcmp(real, blk, (size_t)c->bs) != 0)
        distinct_add_u64(fnv1a(real, (size_t)c->bs, fnv1a(buf, m, (uint64_t)(c->bs + c->klen * 4 + c->dir * 2 + c->how))));
    if (memcmp(real, ref, (size_t)c->bs) != 0) {
        snprintf(sig, sizeof(sig), "C04/skinny%d-tweaked-%d/%s/%s", c->bs * 8, c->klen * 8, c->how ? "fresh-schedule" : "set_tweak", c->dir ? "decrypt" : "encrypt");
        violation(sig, cd, "tweak=%s key=%s in=%s real=%s spec(TK1=tweak, domain constant)=%s", hexs(tweak, (size_t)c->bs),
                  hexs(key, (size_t)c->klen), hexs(blk, (size_t)c->bs), hexs(real, (size_t)c->bs), hexs(ref, (size_t)c->bs));
    }
}

static void run_c04(void)
{
    C04Ctx c; int z;
    if (g_opts.replay) {
        uint8_t buf[80]; char hx[200]; int n;
        g_opts.nshards = 1; g_opts.shard = 0;
        if (sscanf(g_opts.replay, "c04 %d %d %d %d %199s", &c.bs, &c.klen, &c.dir, &c.how, hx) != 5) engine_error("bad replay");
        n = unhex(buf, sizeof(buf), hx);
        c04_case(buf, (size_t)n, &c);
        return;
    }
    for (c.bs = 8; c.bs <= 16; c.bs += 8) for (z = 1; z <= 2; ++z) for (c.dir = 0; c.dir < 2; ++c.dir) for (c.how = 0; c.how < 2; ++c.how) {
        uint8_t vec[64];
        c.klen = z * c.bs;
        lcg_fill(vec, sizeof(vec), 808 + (uint32_t)(c.bs + z));
        fam_iterate((size_t)(2 * c.bs + c.klen), vec, tier_thorough() && c.how == 0, c04_case, &c);
        if (c.dir == 0 && c.how == 0) sample_add("skinny%d tweaked, %d-bit key: families over tweak||key||block, background %s", c.bs * 8, c.klen * 8, hexs(vec, (size_t)(2 * c.bs + c.klen)));
    }
}

int main(int argc, char **argv)
{
    parse_opts(argc, argv);
    run_prelude();
    if (ref_selftest() != 0) engine_error("reference self-test failed");
    if (!g_opts.sub) engine_error("--sub required");
    crash_guard_install();
    if (!strcmp(g_opts.sub, "c01")) run_c01();
    else if (!strcmp(g_opts.sub, "c02")) run_c02();
    else if (!strcmp(g_opts.sub, "c03")) run_c03();
    else if (!strcmp(g_opts.sub, "c04")) run_c04();
    else engine_error("unknown sub %s", g_opts.sub);
    return finish();
}
