/* Shared helpers for the verification harnesses. */
#ifndef VERIF_COMMON_H
#define VERIF_COMMON_H

#include <stdint.h>
#include <stddef.h>
#include <stdio.h>
#include <stdarg.h>

#include "skinny128-cipher.h"
#include "skinny64-cipher.h"
#include "mantis-cipher.h"
#include "skinny128-parallel.h"
#include "skinny64-parallel.h"
#include "mantis-parallel.h"
#include "ref.h"

/* ---- exit codes ---- */
#define EXIT_HELD 0
#define EXIT_VIOLATION 1
#define EXIT_ENGINE 3

/* ---- options common to all harnesses ---- */
typedef struct {
    const char *out;        /* result JSON path */
    const char *tier;       /* "quick" / "thorough" */
    long seed;
    int shard, nshards;     /* work split */
    const char *replay;     /* case descriptor to replay (or NULL) */
    const char *sub;        /* harness-specific sub-command */
    const char *label;      /* build label recorded in results */
    int maxbe;              /* widest back end compiled into the library under test */
} Opts;
extern Opts g_opts;
void parse_opts(int argc, char **argv);
extern int g_prelude_used;        /* which prelude this process ran (0..2) */
extern int g_prelude_crashed;     /* set by run_prelude when the sequence killed its probe process */
void run_prelude(void);           /* library calls made before the enumeration starts (see prelude.c) */
int tier_thorough(void);

/* ---- deterministic pseudo-random fill (LCG), hex ---- */
uint32_t lcg_next(uint32_t *state);
void lcg_fill(uint8_t *buf, size_t n, uint32_t seed);
void hex(char *dst, const uint8_t *src, size_t n);   /* dst holds 2n+1 */
const char *hexs(const uint8_t *src, size_t n);      /* rotating static buffers */
int unhex(uint8_t *dst, size_t cap, const char *src);/* returns byte count */

/* ---- result accumulation ---- */
typedef struct {
    uint64_t evaluations;
    uint64_t states, transitions, traces;
    uint64_t violations;        /* total seen (recorded ones are capped) */
} Counters;
extern Counters g_cnt;

void distinct_add(const void *data, size_t n);      /* hash-set of case digests */
void distinct_add_u64(uint64_t h);
uint64_t distinct_count(void);
uint64_t fnv1a(const void *data, size_t n, uint64_t h);
#define FNV_INIT 0xcbf29ce484222325ULL

void sample_add(const char *fmt, ...) __attribute__((format(printf,1,2)));
/* Records a violation.  sig: finding signature (stable, narrow); casedesc: string
 * that --replay accepts to re-run exactly this case; detail: free text. */
void violation(const char *sig, const char *casedesc, const char *fmt, ...)
    __attribute__((format(printf,3,4)));
void note_kv(const char *key, const char *fmt, ...) __attribute__((format(printf,2,3)));
void note_num(const char *key, double v);
void engine_error(const char *fmt, ...) __attribute__((format(printf,1,2), noreturn));
/* Writes the result JSON and returns the process exit code */
int finish(void);

/* ---- paint (C11): stack / caller-object contents before library calls ---- */
extern int g_paint;                 /* -1: off; else the byte pattern (--paint) */
void verif_paint_stack(void);       /* fills the stack below the caller with the pattern */
void verif_paint_obj(void *p, size_t n);  /* caller object before init/set_key: pattern, or poison under MSan */
void crash_guard_install(void);             /* fatal signals inside a registered case become that case's violation */
void crash_case(const char *prop, const char *kind, int n, const int *v, const uint8_t *buf, size_t m);
void crash_case_done(void);
uint8_t *guard_tail(int slot, size_t n);   /* n bytes ending at a PROT_NONE page (slots 0..7) */
uint8_t *guard_head(int slot, size_t n);
void guard_readonly(int slot, int on);      /* read-only while a library call uses it as a pure input */   /* n bytes starting right after a PROT_NONE page */
uint64_t verif_shadow_sig(const void *p, size_t n);   /* which bytes MemorySanitizer holds uninitialised (0 elsewhere) */
void verif_unpoison(void *p, size_t n);   /* harness-side bookkeeping copies of painted memory (MSan builds) */
/* order-independent digest of everything the library returned (outputs, schedules, return values) */
extern uint64_t g_out_sum;
void out_digest(const char *tag, const void *out, size_t n);

/* ---- back-end pinning (pin.c) ---- */
enum { BE_GEN = 0, BE_V128 = 1, BE_V256 = 2 };
extern int g_pin;               /* back end the wrapped probes report */
int host_max_backend(void);     /* widest back end the host CPU can execute */
int max_backend(void);          /* min(host, compiled in) */
const char *be_name(int be);

/* ---- input families (families.c) ---- */
typedef void (*fam_cb)(const uint8_t *buf, size_t m, void *arg);
/* Iterates the structured families over buffers of m bytes.  vec is the variant's
 * published vector laid out as the same m bytes (or NULL).  Every case index i is
 * dealt to shard (i mod nshards). Returns number of cases generated (all shards). */
uint64_t fam_iterate(size_t m, const uint8_t *vec, int thorough, fam_cb cb, void *arg);

#endif
