/*
 * huge (C07 / C05, thorough tier): one request of more than 2^32 bytes per entry point.
 * The byte counts of the bulk functions are size_t; a count is split into batches, tails
 * and left-over keystream by arithmetic that is easy to get wrong in 32 bits.  Each bulk
 * function is called once, in place, on 2^32 + 9 blocks' worth... (see SIZES) of a
 * position-dependent pattern, and a set of sampled blocks - the first and last ones, the
 * ones around every multiple of 2^32 bytes, and one in every 2^16 - is checked against the
 * single-block functions.  --sub par | ctr
 */
#include "common.h"
#include "alloc.h"
#include "obj.h"
#include <string.h>
#include <sys/mman.h>

static uint8_t KEY[48], TWEAK[16], CTR0[16];

static void pattern(uint8_t *buf, size_t nbytes, int bs)
{
    size_t i, nb = nbytes / (size_t)bs;
    for (i = 0; i < nb; ++i) { uint64_t v = i * 0x9E3779B97F4A7C15ULL + 1; memcpy(buf + i * (size_t)bs, &v, 8); if (bs == 16) { v = ~i; memcpy(buf + i * 16 + 8, &v, 8); } }
    for (i = nb * (size_t)bs; i < nbytes; ++i) buf[i] = (uint8_t)(i * 7 + 3);
}

static void pattern_block(uint8_t *blk, size_t i, int bs)
{
    uint64_t v = i * 0x9E3779B97F4A7C15ULL + 1; memcpy(blk, &v, 8); if (bs == 16) { v = ~i; memcpy(blk + 8, &v, 8); }
}

static int sampled(size_t i, size_t nb, int bs)
{
    size_t per4g = ((size_t)1 << 32) / (size_t)bs, r = i % per4g;
    if (i < 40 || i + 40 >= nb) return 1;
    if (r < 24 || r + 24 >= per4g) return 1;
    return (i & 0xFFFF) == 0x1234;
}

static void run_par(void)
{
    int c, be, dir;
    for (c = 0; c < 3; ++c) for (be = cipher_max_be((Cipher)c); be >= 1; --be) {
        int bs = cipher_bs((Cipher)c);
        size_t nb = ((size_t)1 << 32) / (size_t)bs + 9, nbytes = nb * (size_t)bs, i;
        uint8_t *buf, *tw = NULL; ParObj o; char cd[120], sig[160];
        if (c != CK_S128 && be != cipher_max_be((Cipher)c)) continue;
        if (c % g_opts.nshards != g_opts.shard) continue;
        buf = mmap(NULL, nbytes, PROT_READ | PROT_WRITE, MAP_PRIVATE | MAP_ANONYMOUS | MAP_NORESERVE, -1, 0);
        if (buf == MAP_FAILED) { note_num("skipped_for_lack_of_memory", 1); return; }
        for (dir = 0; dir < 2; ++dir) {
            int r; size_t bad = 0, first = 0, checked = 0;
            if (c == CK_MANTIS && dir) continue;       /* one direction of the involutive structure: the schedule decides */
            snprintf(cd, sizeof(cd), "huge par %d %d %d", c, be, dir);
            arena_reset(); memset(&o, 0, sizeof(o));
            if (!par_init((Cipher)c, be, &o) || par_set_key((Cipher)c, &o, KEY, c == CK_MANTIS ? 16 : (unsigned)bs * 2, 6, MANTIS_ENCRYPT) != 1) engine_error("huge: set-up failed");
            pattern(buf, nbytes, bs);
            /* Mantis takes one tweak per block: an untouched anonymous mapping (all zero tweaks, backed by the zero page) */
            if (c == CK_MANTIS && !tw) { tw = mmap(NULL, nbytes, PROT_READ, MAP_PRIVATE | MAP_ANONYMOUS | MAP_NORESERVE, -1, 0); if (tw == MAP_FAILED) engine_error("huge: tweak mapping"); }
            r = par_crypt((Cipher)c, &o, buf, buf, tw, nbytes, dir);
            ++g_cnt.evaluations;
            for (i = 0; i < nb; ++i) if (sampled(i, nb, bs)) {
                uint8_t in[16], want[16];
                pattern_block(in, i, bs);
                blk_crypt((Cipher)c, KEY, c == CK_MANTIS ? 16 : (unsigned)bs * 2, 6, dir, in, want);
                ++checked;
                if (memcmp(buf + i * (size_t)bs, want, (size_t)bs) != 0) { if (!bad) first = i; ++bad; }
            }
            distinct_add_u64(fnv1a(cd, strlen(cd), 77));
            if (r != 1 || bad) {
                snprintf(sig, sizeof(sig), "C07/%s/%s/request-larger-than-4GiB", cipher_name((Cipher)c), be_name(be));
                violation(sig, cd, "%s of %zu blocks (%zu bytes) in one call on %s: returned %d, %zu of %zu sampled blocks differ from the single-block function, first at block %zu (byte offset 0x%zx)",
                          dir ? "decrypt" : "encrypt", nb, nbytes, be_name(be), r, bad, checked, first, first * (size_t)bs);
            }
            par_cleanup((Cipher)c, &o);
        }
        munmap(buf, nbytes); if (tw) munmap(tw, nbytes);
    }
}

static void run_ctr(void)
{
    int c;
    for (c = 0; c < 3; ++c) {
        int bs = cipher_bs((Cipher)c), be = cipher_max_be((Cipher)c), r1, r2;
        size_t nbytes = ((size_t)1 << 32) + 5 * (size_t)bs + 3, nb = nbytes / (size_t)bs, i, bad = 0, first = 0, checked = 0, head = 21;
        uint8_t *buf; CtrObj o; char cd[120], sig[160];
        if (c % g_opts.nshards != g_opts.shard) continue;
        buf = mmap(NULL, nbytes, PROT_READ | PROT_WRITE, MAP_PRIVATE | MAP_ANONYMOUS | MAP_NORESERVE, -1, 0);
        if (buf == MAP_FAILED) { note_num("skipped_for_lack_of_memory", 1); return; }
        snprintf(cd, sizeof(cd), "huge ctr %d %d", c, be);
        arena_reset(); memset(&o, 0, sizeof(o));
        if (!ctr_init((Cipher)c, be, &o) || ctr_set_key((Cipher)c, &o, KEY, c == CK_MANTIS ? 16 : (unsigned)bs * 2, 6) != 1) engine_error("huge: set-up failed");
        if (c == CK_MANTIS) ctr_set_tweak((Cipher)c, &o, TWEAK, 8);
        ctr_set_counter((Cipher)c, &o, CTR0, (unsigned)bs);
        pattern(buf, nbytes, bs);
        /* a short first request, so that the huge one starts with left-over keystream, then everything else at once */
        r1 = ctr_encrypt((Cipher)c, &o, buf, buf, head);
        r2 = ctr_encrypt((Cipher)c, &o, buf + head, buf + head, nbytes - head);
        ++g_cnt.evaluations;
        for (i = 0; i < nb; ++i) if (sampled(i, nb, bs)) {
            uint8_t cb[16], ks[16], in[16]; int k, ok = 1;
            memcpy(cb, CTR0, 16); ref_ctr_add(cb, bs, (uint64_t)i);
            if (c == CK_MANTIS) { MantisKey_t mk; mantis_set_key(&mk, KEY, 16, 6, MANTIS_ENCRYPT); mantis_ecb_crypt_tweaked(ks, cb, TWEAK, &mk); }
            else blk_crypt((Cipher)c, KEY, (unsigned)bs * 2, 0, 0, cb, ks);
            pattern_block(in, i, bs);
            for (k = 0; k < bs; ++k) if (buf[i * (size_t)bs + (size_t)k] != (uint8_t)(in[k] ^ ks[k])) ok = 0;
            ++checked;
            if (!ok) { if (!bad) first = i; ++bad; }
        }
        distinct_add_u64(fnv1a(cd, strlen(cd), 78));
        if (r1 != 1 || r2 != 1 || bad) {
            snprintf(sig, sizeof(sig), "C05/ctr/%s/request-larger-than-4GiB", cipher_name((Cipher)c));
            violation(sig, cd, "encrypt(%zu) then encrypt(%zu) in place on %s: returned %d,%d; %zu of %zu sampled blocks differ from in xor E(c+i), first at block %zu (byte offset 0x%zx)",
                      head, nbytes - head, be_name(be), r1, r2, bad, checked, first, first * (size_t)bs);
        }
        ctr_cleanup((Cipher)c, &o);
        munmap(buf, nbytes);
    }
}

int main(int argc, char **argv)
{
    parse_opts(argc, argv);
    lcg_fill(KEY, 48, 9100); lcg_fill(TWEAK, 16, 9101); memset(CTR0, 0xFF, 16); CTR0[15] = 0xF0; CTR0[0] = 0x3C;
    if (!g_opts.sub) engine_error("--sub required");
    if (!strcmp(g_opts.sub, "par")) run_par(); else run_ctr();
    return finish();
}
