/*
 * C10: every key length x every key-setting entry point (exhaustive over lengths
 * 0..64 plus far-out lengths), and the schedule-level invalid-call menu of C14.
 * Keys are placed flush against a PROT_NONE page, so a read beyond the stated
 * length - or any read at all for a length that must be rejected - faults.
 * The stack below the call is painted differently before the two calls whose
 * results are compared, so "equal by accident of stack contents" cannot pass.
 */
#include "common.h"
#include "alloc.h"
#include "obj.h"
#include "mc.h"
#include <string.h>
#include <stdlib.h>
#include <limits.h>
#include <sys/mman.h>

static uint8_t *guard_page_end;     /* first byte of the PROT_NONE page */

static void guard_setup(void)
{
    uint8_t *m = mmap(NULL, 3 * 4096, PROT_READ | PROT_WRITE, MAP_PRIVATE | MAP_ANONYMOUS, -1, 0);
    if (m == MAP_FAILED) engine_error("mmap");
    if (mprotect(m + 2 * 4096, 4096, PROT_NONE) != 0) engine_error("mprotect");
    guard_page_end = m + 2 * 4096;
}

/* n bytes ending exactly at the guard page */
static uint8_t *flush_buf(const uint8_t *src, size_t n)
{
    uint8_t *p = guard_page_end - n;
    if (n) memcpy(p, src, n);
    return p;
}

static void __attribute__((noinline)) paint_stack(int pattern)
{
    volatile uint8_t area[6144];
    size_t i;
    for (i = 0; i < sizeof(area); ++i) area[i] = (uint8_t)pattern;
    if (g_paint >= 0) verif_paint_stack();     /* under the C11 builds the common painter (and MSan poison) takes over */
}

/* entry points */
enum { EP_S128_KEY, EP_S128_TKEY, EP_S64_KEY, EP_S64_TKEY,
       EP_CTR128_KEY, EP_CTR128_TKEY, EP_CTR64_KEY, EP_CTR64_TKEY, EP_PAR128_KEY, EP_PAR64_KEY, EP_N };
static const char *EPNAME[EP_N] = {"skinny128_set_key", "skinny128_set_tweaked_key", "skinny64_set_key", "skinny64_set_tweaked_key",
    "skinny128_ctr_set_key", "skinny128_ctr_set_tweaked_key", "skinny64_ctr_set_key", "skinny64_ctr_set_tweaked_key",
    "skinny128_parallel_ecb_set_key", "skinny64_parallel_ecb_set_key"};

static int ep_bs(int ep) { return (ep == EP_S128_KEY || ep == EP_S128_TKEY || ep == EP_CTR128_KEY || ep == EP_CTR128_TKEY || ep == EP_PAR128_KEY) ? 16 : 8; }
static int ep_tweaked(int ep) { return ep == EP_S128_TKEY || ep == EP_S64_TKEY || ep == EP_CTR128_TKEY || ep == EP_CTR64_TKEY; }
static int ep_maxblocks(int ep) { return ep_tweaked(ep) ? 2 : 3; }
static Cipher ep_cipher(int ep) { return ep_bs(ep) == 16 ? CK_S128 : CK_S64; }

/* One keyed object of any entry-point kind, with the image of its defined state */
typedef struct {
    Skinny128TweakedKey_t k128; Skinny64TweakedKey_t k64;
    CtrObj co; ParObj po;
} Holder;

static size_t sched_image128(const Skinny128Key_t *ks, uint8_t *buf)
{
    unsigned r = ks->rounds <= SKINNY128_MAX_ROUNDS ? ks->rounds : SKINNY128_MAX_ROUNDS; size_t o = 0;
    memcpy(buf, &ks->rounds, sizeof(unsigned)); o += sizeof(unsigned);
    memcpy(buf + o, ks->schedule, r * sizeof(ks->schedule[0])); o += r * sizeof(ks->schedule[0]);
    return o;
}

static size_t sched_image64(const Skinny64Key_t *ks, uint8_t *buf)
{
    unsigned r = ks->rounds <= SKINNY64_MAX_ROUNDS ? ks->rounds : SKINNY64_MAX_ROUNDS; size_t o = 0;
    memcpy(buf, &ks->rounds, sizeof(unsigned)); o += sizeof(unsigned);
    memcpy(buf + o, ks->schedule, r * sizeof(ks->schedule[0])); o += r * sizeof(ks->schedule[0]);
    return o;
}

/* Prepares the holder: prior != 0 gives it a valid previous key first (two different priors) */
static void holder_prepare(Holder *h, int ep, int be, int prior)
{
    static const uint8_t pk[2][48] = {{1,2,3,4,5,6,7,8,9,10,11,12,13,14,15,16,17,18,19,20,21,22,23,24},
                                      {0xF0,0xE1,0xD2,0xC3,0xB4,0xA5,0x96,0x87,0x78,0x69,0x5A,0x4B,0x3C,0x2D,0x1E,0x0F,0x11,0x22,0x33,0x44,0x55,0x66,0x77,0x88}};
    unsigned pl = (unsigned)ep_bs(ep) * (prior == 2 ? 2 : 1);
    memset(h, prior == 0 ? 0xA5 : 0, sizeof(*h));
    if (prior == 0) verif_paint_obj(h, sizeof(*h));
    memset(&h->co, 0, sizeof(h->co)); memset(&h->po, 0, sizeof(h->po));
    switch (ep) {
    /* the prior object carries a non-zero tweak, so that "unchanged on rejection" covers the remembered tweak too */
    case EP_S128_KEY: case EP_S128_TKEY: if (prior) { skinny128_set_tweaked_key(&h->k128, pk[prior - 1], pl); skinny128_set_tweak(&h->k128, pk[prior - 1] + 5, 16); } break;
    case EP_S64_KEY: case EP_S64_TKEY: if (prior) { skinny64_set_tweaked_key(&h->k64, pk[prior - 1], pl); skinny64_set_tweak(&h->k64, pk[prior - 1] + 5, 8); } break;
    case EP_CTR128_KEY: case EP_CTR128_TKEY: case EP_CTR64_KEY: case EP_CTR64_TKEY:
        if (!ctr_init(ep_cipher(ep), be, &h->co)) engine_error("ctr init");
        if (prior) { ctr_set_tweaked_key(ep_cipher(ep), &h->co, pk[prior - 1], pl); ctr_set_tweak(ep_cipher(ep), &h->co, pk[prior - 1] + 5, (unsigned)ep_bs(ep)); }
        break;
    default:
        if (!par_init(ep_cipher(ep), be, &h->po)) engine_error("par init");
        if (prior) par_set_key(ep_cipher(ep), &h->po, pk[prior - 1], pl, 0, 0);
        break;
    }
}

static int holder_setkey(Holder *h, int ep, const void *key, unsigned len)
{
    int r = -9;
    switch (ep) {
    case EP_S128_KEY: LIB(r = skinny128_set_key(&h->k128.ks, key, len)); break;
    case EP_S128_TKEY: LIB(r = skinny128_set_tweaked_key(&h->k128, key, len)); break;
    case EP_S64_KEY: LIB(r = skinny64_set_key(&h->k64.ks, key, len)); break;
    case EP_S64_TKEY: LIB(r = skinny64_set_tweaked_key(&h->k64, key, len)); break;
    case EP_CTR128_KEY: case EP_CTR64_KEY: r = ctr_set_key(ep_cipher(ep), &h->co, key, len, 0); break;
    case EP_CTR128_TKEY: case EP_CTR64_TKEY: r = ctr_set_tweaked_key(ep_cipher(ep), &h->co, key, len); break;
    default: r = par_set_key(ep_cipher(ep), &h->po, key, len, 0, 0); break;
    }
    return r;
}

/* Whole observable state of the holder (for "unchanged on rejection") */
static size_t holder_full_image(const Holder *h, int ep, uint8_t *buf, size_t cap)
{
    switch (ep) {
    case EP_S128_KEY: case EP_S128_TKEY: memcpy(buf, &h->k128, sizeof(h->k128)); return sizeof(h->k128);
    case EP_S64_KEY: case EP_S64_TKEY: memcpy(buf, &h->k64, sizeof(h->k64)); return sizeof(h->k64);
    case EP_CTR128_KEY: case EP_CTR128_TKEY: case EP_CTR64_KEY: case EP_CTR64_TKEY: return ctr_image(ep_cipher(ep), &h->co, buf, cap);
    default: return par_image(ep_cipher(ep), &h->po, buf, cap);
    }
}

/* Defined part of the schedule the call produced (for "same as zero-padded key") */
static size_t holder_sched_image(const Holder *h, int ep, uint8_t *buf)
{
    size_t o;
    switch (ep) {
    case EP_S128_KEY: return sched_image128(&h->k128.ks, buf);
    case EP_S128_TKEY: o = sched_image128(&h->k128.ks, buf); memcpy(buf + o, h->k128.tweak, 16); return o + 16;
    case EP_S64_KEY: return sched_image64(&h->k64.ks, buf);
    case EP_S64_TKEY: o = sched_image64(&h->k64.ks, buf); memcpy(buf + o, h->k64.tweak, 8); return o + 8;
    case EP_CTR128_KEY: case EP_CTR128_TKEY: return sched_image128(&((const Skinny128TweakedKey_t *)h->co.raw.ctx)->ks, buf);
    case EP_CTR64_KEY: case EP_CTR64_TKEY: return sched_image64(&((const Skinny64TweakedKey_t *)h->co.raw.ctx)->ks, buf);
    case EP_PAR128_KEY: return sched_image128((const Skinny128Key_t *)h->po.raw.ctx, buf);
    default: return sched_image64((const Skinny64Key_t *)h->po.raw.ctx, buf);
    }
}

/* behaviour through the API: encrypt one block (CTR: first keystream block for counter = blk) */
static void holder_encrypt(Holder *h, int ep, const uint8_t *blk, uint8_t *out)
{
    static const uint8_t zero[16] = {0};
    int bs = ep_bs(ep);
    switch (ep) {
    case EP_S128_KEY: case EP_S128_TKEY: skinny128_ecb_encrypt(out, blk, &h->k128.ks); break;
    case EP_S64_KEY: case EP_S64_TKEY: skinny64_ecb_encrypt(out, blk, &h->k64.ks); break;
    case EP_CTR128_KEY: case EP_CTR128_TKEY: case EP_CTR64_KEY: case EP_CTR64_TKEY:
        ctr_set_counter(ep_cipher(ep), &h->co, blk, (unsigned)bs);
        ctr_encrypt(ep_cipher(ep), &h->co, out, zero, (size_t)bs);
        break;
    default: par_crypt(ep_cipher(ep), &h->po, out, blk, NULL, (size_t)bs, 0); break;
    }
}

static void holder_release(Holder *h, int ep)
{
    if (ep >= EP_CTR128_KEY && ep <= EP_CTR64_TKEY) ctr_cleanup(ep_cipher(ep), &h->co);
    else if (ep >= EP_PAR128_KEY) par_cleanup(ep_cipher(ep), &h->po);
}

static void c10_case(int ep, int be, unsigned len, const uint8_t *keybytes, int keyvariant)
{
    int bs = ep_bs(ep), lo = bs, hi = bs * ep_maxblocks(ep);
    int valid = len >= (unsigned)lo && len <= (unsigned)hi;
    char cd[300], sig[200], sb[128];
    static uint8_t img1[8192], img2[8192];
    Holder h1, h2;
    snprintf(cd, sizeof(cd), "c10 %d %d %u %d %s", ep, be, len, keyvariant, valid ? hexs(keybytes, len) : "-");
    snprintf(sb, sizeof(sb), "C10/%s/%s", EPNAME[ep], valid ? "accepted-length" : "rejected-length");
    if (guard_enter(sb, cd)) return;
    ++g_cnt.evaluations;
    distinct_add_u64(fnv1a(cd, strlen(cd), 10));
    if (!valid) {
        int prior;
        for (prior = 0; prior < 3; ++prior) {
            size_t l1, l2; int r;
            /* a single readable byte flush against the guard page: rejection must come before any read */
            uint8_t *kp = flush_buf((const uint8_t *)"\x5a", 1);
            arena_reset();
            holder_prepare(&h1, ep, be, prior);
            l1 = holder_full_image(&h1, ep, img1, sizeof(img1));
            paint_stack(0x6D);
            r = holder_setkey(&h1, ep, len == 0 ? (const void *)guard_page_end : (const void *)kp, len);
            l2 = holder_full_image(&h1, ep, img2, sizeof(img2));
            verif_unpoison(img1, l1); verif_unpoison(img2, l2);   /* a never-keyed caller object is painted/poisoned by design */
            if (r != 0) {
                snprintf(sig, sizeof(sig), "C10/%s/out-of-range-length-accepted", EPNAME[ep]);
                violation(sig, cd, "%s accepted key length %u (documented range %d..%d), returned %d", EPNAME[ep], len, lo, hi, r);
            } else if (l1 != l2 || memcmp(img1, img2, l1) != 0) {
                snprintf(sig, sizeof(sig), "C10/%s/rejected-call-changed-schedule", EPNAME[ep]);
                violation(sig, cd, "%s rejected key length %u but the existing schedule changed (prior %d)", EPNAME[ep], len, prior);
            }
            holder_release(&h1, ep);
        }
        guard_leave();
        return;
    }
    {
        /* accepted: must equal the same bytes zero-padded to the next primary size */
        unsigned padded = ((len + (unsigned)bs - 1) / (unsigned)bs) * (unsigned)bs;
        uint8_t pk[48], blk[16], o1[16], o2[16], ref[16]; size_t l1, l2; int r1, r2, i;
        memset(pk, 0, sizeof(pk)); memcpy(pk, keybytes, len);
        arena_reset();
        holder_prepare(&h1, ep, be, 0);
        paint_stack(0x00);
        r1 = holder_setkey(&h1, ep, flush_buf(keybytes, len), len);
        holder_prepare(&h2, ep, be, 0);
        paint_stack(0xA5);
        r2 = holder_setkey(&h2, ep, flush_buf(pk, padded), padded);
        if (r1 != 1 || r2 != 1) {
            snprintf(sig, sizeof(sig), "C10/%s/in-range-length-rejected", EPNAME[ep]);
            violation(sig, cd, "%s returned %d for length %u and %d for length %u (documented range %d..%d)", EPNAME[ep], r1, len, r2, padded, lo, hi);
            holder_release(&h1, ep); holder_release(&h2, ep); guard_leave(); return;
        }
        l1 = holder_sched_image(&h1, ep, img1); l2 = holder_sched_image(&h2, ep, img2);
        out_digest("key-schedule-after-set_key", img1, l1); out_digest("key-schedule-after-padded-set_key", img2, l2);
        if (l1 != l2 || memcmp(img1, img2, l1) != 0) {
            size_t d = 0; while (d < l1 && d < l2 && img1[d] == img2[d]) ++d;
            snprintf(sig, sizeof(sig), "C10/%s/not-zero-padded/%s", EPNAME[ep], len % (unsigned)bs ? "in-between-length" : "primary-length");
            violation(sig, cd, "%s with %u key bytes %s: key schedule differs from the same bytes zero-padded to %u (first difference at schedule byte %zu)",
                      EPNAME[ep], len, hexs(keybytes, len), padded, d);
        }
        for (i = 0; i < 6; ++i) {
            lcg_fill(blk, 16, 60 + (uint32_t)i); if (i == 0) memset(blk, 0, 16);
            holder_encrypt(&h1, ep, blk, o1); holder_encrypt(&h2, ep, blk, o2);
            out_digest("ciphertext-after-set_key", o1, (size_t)bs);
            if (ep_tweaked(ep)) { uint8_t zt[16] = {0}; ref_skinny_tweak_encrypt(bs, pk, (int)padded, zt, blk, ref); }
            else ref_skinny_key_encrypt(bs, pk, (int)padded, blk, ref);
            if (memcmp(o1, o2, (size_t)bs) != 0 || memcmp(o1, ref, (size_t)bs) != 0) {
                snprintf(sig, sizeof(sig), "C10/%s/ciphertext-differs/%s", EPNAME[ep], len % (unsigned)bs ? "in-between-length" : "primary-length");
                violation(sig, cd, "%s with %u key bytes: block %s encrypts to %s, zero-padded key gives %s, specification %s",
                          EPNAME[ep], len, hexs(blk, (size_t)bs), hexs(o1, (size_t)bs), hexs(o2, (size_t)bs), hexs(ref, (size_t)bs));
                break;
            }
        }
        holder_release(&h1, ep); holder_release(&h2, ep);
    }
    guard_leave();
}

static void c10_mantis(int which, unsigned size, unsigned rounds, int mode)
{
    /* which 0: mantis_set_key, 1: mantis_ctr_set_key, 2: mantis_parallel_ecb_set_key */
    static const char *nm[] = {"mantis_set_key", "mantis_ctr_set_key", "mantis_parallel_ecb_set_key"};
    static const uint8_t key[40] = {9,8,7,6,5,4,3,2,1,0,11,12,13,14,15,16,17,18,19,20};
    int valid = size == 16 && rounds >= 5 && rounds <= 8, r = -9, be, prior;
    char cd[200], sig[200], sb[128];
    static uint8_t img1[8192], img2[8192];
    snprintf(cd, sizeof(cd), "c10m %d %u %u %d", which, size, rounds, mode);
    snprintf(sb, sizeof(sb), "C10/%s", nm[which]);
    if (guard_enter(sb, cd)) return;
    for (be = 0; be <= (which ? cipher_max_be(CK_MANTIS) : 0); ++be) for (prior = 0; prior < 2; ++prior) {
        MantisKey_t ks; CtrObj co; ParObj po; size_t l1 = 0, l2 = 0;
        const uint8_t *kp = size <= 40 ? flush_buf(key, size) : flush_buf((const uint8_t *)"\x11", 1);
        if (size == 0) kp = guard_page_end;
        ++g_cnt.evaluations;
        arena_reset();
        memset(&ks, 0x77, sizeof(ks)); memset(&co, 0, sizeof(co)); memset(&po, 0, sizeof(po));
        if (which == 0) { if (prior) mantis_set_key(&ks, key + 3, 16, 6, MANTIS_ENCRYPT); memcpy(img1, &ks, sizeof(ks)); l1 = sizeof(ks); }
        else if (which == 1) { ctr_init(CK_MANTIS, be, &co); if (prior) ctr_set_key(CK_MANTIS, &co, key + 3, 16, 6); l1 = ctr_image(CK_MANTIS, &co, img1, sizeof(img1)); }
        else { par_init(CK_MANTIS, be, &po); if (prior) par_set_key(CK_MANTIS, &po, key + 3, 16, 6, MANTIS_ENCRYPT); l1 = par_image(CK_MANTIS, &po, img1, sizeof(img1)); }
        paint_stack(0x33);
        if (which == 0) LIB(r = mantis_set_key(&ks, kp, size, rounds, mode));
        else if (which == 1) r = ctr_set_key(CK_MANTIS, &co, kp, size, rounds);
        else r = par_set_key(CK_MANTIS, &po, kp, size, rounds, mode);
        if (which == 0) { memcpy(img2, &ks, sizeof(ks)); l2 = sizeof(ks); }
        else if (which == 1) l2 = ctr_image(CK_MANTIS, &co, img2, sizeof(img2));
        else l2 = par_image(CK_MANTIS, &po, img2, sizeof(img2));
        distinct_add_u64(fnv1a(cd, strlen(cd), (uint64_t)(be * 2 + prior)));
        if (valid && r != 1) {
            snprintf(sig, sizeof(sig), "C10/%s/valid-rejected", nm[which]);
            violation(sig, cd, "%s(size=16, rounds=%u) returned %d", nm[which], rounds, r);
        } else if (!valid && r != 0) {
            snprintf(sig, sizeof(sig), "C10/%s/invalid-accepted", nm[which]);
            violation(sig, cd, "%s(size=%u, rounds=%u) returned %d; Mantis accepts only 16-byte keys and 5..8 rounds", nm[which], size, rounds, r);
        } else if (!valid && (l1 != l2 || memcmp(img1, img2, l1) != 0)) {
            snprintf(sig, sizeof(sig), "C10/%s/rejected-call-changed-schedule", nm[which]);
            violation(sig, cd, "%s(size=%u, rounds=%u) was rejected but changed the object", nm[which], size, rounds);
        } else if (valid) {
            /* behaviour under the accepted key */
            uint8_t blk[8] = {1,2,3,4,5,6,7,8}, out[8], ref[8], z[8] = {0};
            if (which == 0) mantis_ecb_crypt(out, blk, &ks);
            else if (which == 1) { ctr_set_counter(CK_MANTIS, &co, blk, 8); ctr_encrypt(CK_MANTIS, &co, out, z, 8); }
            else par_crypt(CK_MANTIS, &po, out, blk, z, 8, 0);
            if (which != 1 && mode != MANTIS_ENCRYPT) ref_mantis_decrypt(key, z, (int)rounds, blk, ref);
            else ref_mantis_encrypt(key, z, (int)rounds, blk, ref);
            if (memcmp(out, ref, 8) != 0) {
                snprintf(sig, sizeof(sig), "C10/%s/wrong-cipher-after-accept", nm[which]);
                violation(sig, cd, "%s(rounds=%u, mode=%d): got %s, specification %s", nm[which], rounds, mode, hexs(out, 8), hexs(ref, 8));
            }
        }
        if (which == 1) ctr_cleanup(CK_MANTIS, &co);
        if (which == 2) par_cleanup(CK_MANTIS, &po);
    }
    guard_leave();
}

static const unsigned FAR[] = {65, 255, 256, 65536, 0x80000000u, UINT_MAX};

static void run_c10(void)
{
    int ep, be, job = 0; unsigned len, i; int p, v;
    uint8_t key[64];
    if (g_opts.replay) {
        int a, b, kv; unsigned l; char hx[200]; unsigned s, r; int w, m;
        g_opts.nshards = 1; g_opts.shard = 0;
        if (sscanf(g_opts.replay, "c10 %d %d %u %d %199s", &a, &b, &l, &kv, hx) == 5) {
            memset(key, 0, sizeof(key)); if (hx[0] != '-') unhex(key, sizeof(key), hx);
            c10_case(a, b, l, key, kv);
        } else if (sscanf(g_opts.replay, "c10m %d %u %u %d", &w, &s, &r, &m) == 4) c10_mantis(w, s, r, m);
        else engine_error("bad replay");
        return;
    }
    for (ep = 0; ep < EP_N; ++ep) {
        int maxbe = ep >= EP_CTR128_KEY ? cipher_max_be(ep_cipher(ep)) : 0, bs = ep_bs(ep);
        for (be = 0; be <= maxbe; ++be, ++job) {
            if (job % g_opts.nshards != g_opts.shard) continue;
            for (len = 0; len <= 64; ++len) {
                unsigned boundary = (len / (unsigned)bs) * (unsigned)bs;
                int valid = len >= (unsigned)bs && len <= (unsigned)(bs * ep_maxblocks(ep));
                lcg_fill(key, sizeof(key), 1000 + (uint32_t)g_opts.seed); c10_case(ep, be, len, key, 0);
                if (!valid) continue;
                memset(key, 0xFF, sizeof(key)); c10_case(ep, be, len, key, 1);
                /* BYTE over the key bytes beyond the last primary boundary (the part the padding rule is about) */
                for (p = (int)boundary; p < (int)len; ++p) {
                    lcg_fill(key, sizeof(key), 2000 + (uint32_t)len);
                    for (v = 0; v < 256; v += (tier_thorough() ? 1 : 17)) { key[p] = (uint8_t)v; c10_case(ep, be, len, key, 2 + p); }
                }
            }
            for (i = 0; i < sizeof(FAR) / sizeof(FAR[0]); ++i) { lcg_fill(key, sizeof(key), 7); c10_case(ep, be, FAR[i], key, 0); }
            {   /* lengths at which length arithmetic could wrap: 2^k + a legal length (scaled comparisons), 2^32 - v (sums) */
                unsigned k, v;
                lcg_fill(key, sizeof(key), 7);
                for (k = 24; k <= 31; ++k) for (v = 0; v <= 3; ++v) c10_case(ep, be, (1u << k) + v * (unsigned)bs, key, 0);
                /* a length or a block count kept in a narrower type: 2^k + every length up to one past the longest legal one,
                 * for 2^8 .. 2^23 (bs * 2^8 and bs * 2^16 among them) and 3 * 2^8 */
                for (k = 8; k <= 23; ++k) for (v = 0; v <= (unsigned)(bs * ep_maxblocks(ep)) + 1; ++v) c10_case(ep, be, (1u << k) + v, key, 0);
                for (v = 0; v <= (unsigned)(bs * ep_maxblocks(ep)) + 1; ++v) c10_case(ep, be, 768u + v, key, 0);
                for (v = 1; v <= 48; ++v) c10_case(ep, be, 0u - v, key, 0);
            }
            if (job < 5) sample_add("%s on %s: key lengths 0..64, {65,255,256,65536,2^31,UINT_MAX}, 2^k + v for k = 8..23 and every v up to one past the longest legal length, 2^k + whole blocks for k = 24..31, 2^32 - v; accepted lengths compared with the zero-padded key (schedule image, ciphertexts, specification)", EPNAME[ep], be_name(be));
        }
    }
    /* Mantis: sizes x rounds x modes */
    if (job++ % g_opts.nshards == g_opts.shard) {
        int which, mode; unsigned size, rounds;
        static const unsigned sizes[] = {0, 1, 8, 15, 16, 17, 24, 32, 33, 255, 65536, UINT_MAX};
        for (which = 0; which < 3; ++which) for (i = 0; i < sizeof(sizes) / sizeof(sizes[0]); ++i) for (rounds = 0; rounds <= 12; ++rounds) for (mode = 0; mode < 2; ++mode) {
            size = sizes[i];
            c10_mantis(which, size, rounds, mode);
        }
        for (which = 0; which < 3; ++which) { c10_mantis(which, 16, UINT_MAX, 1); c10_mantis(which, 16, 0x80000005u, 1); c10_mantis(which, 16, 261, 1); }
        sample_add("mantis_set_key / mantis_ctr_set_key / mantis_parallel_ecb_set_key: sizes {0,1,8,15,16,17,24,32,33,255,65536,UINT_MAX} x rounds 0..12 (+ wrapped values) x modes");
    }
}

/* ------------------------------------------------------------------ C14: schedule-level and parallel invalid-call menu */

static void c14_report(const char *fn, const char *cls, const char *cd, const char *fmt, ...)
{
    char sig[200], detail[600]; va_list ap;
    va_start(ap, fmt); vsnprintf(detail, sizeof(detail), fmt, ap); va_end(ap);
    snprintf(sig, sizeof(sig), "C14/%s/%s", fn, cls);
    violation(sig, cd, "%s", detail);
}

#define C14_BEGIN(fn, desc) do { snprintf(cd, sizeof(cd), "c14s %s", desc); if (guard_enter("C14/" fn, cd)) break; ++g_cnt.evaluations; distinct_add_u64(fnv1a(cd, strlen(cd), 14));
#define C14_END() guard_leave(); } while (0)

static void run_c14s(void)
{
    char cd[200];
    static const uint8_t key[48] = {1,2,3,4,5,6,7,8,9,10,11,12,13,14,15,16};
    static uint8_t a[8192], b[8192];
    int prior, r, c, be;
    g_opts.replay = NULL;   /* the menu is small: a replay re-runs it */
    /* null schedule objects */
    C14_BEGIN("skinny128_set_key", "null-ks-128") LIB(r = skinny128_set_key(NULL, key, 16)); if (r) c14_report("skinny128_set_key", "null-object-accepted", cd, "returned %d", r); C14_END();
    C14_BEGIN("skinny128_set_tweaked_key", "null-tks-128") LIB(r = skinny128_set_tweaked_key(NULL, key, 16)); if (r) c14_report("skinny128_set_tweaked_key", "null-object-accepted", cd, "returned %d", r); C14_END();
    C14_BEGIN("skinny128_set_tweak", "null-tks-tweak-128") LIB(r = skinny128_set_tweak(NULL, key, 16)); if (r) c14_report("skinny128_set_tweak", "null-object-accepted", cd, "returned %d", r); C14_END();
    C14_BEGIN("skinny64_set_key", "null-ks-64") LIB(r = skinny64_set_key(NULL, key, 8)); if (r) c14_report("skinny64_set_key", "null-object-accepted", cd, "returned %d", r); C14_END();
    C14_BEGIN("skinny64_set_tweaked_key", "null-tks-64") LIB(r = skinny64_set_tweaked_key(NULL, key, 8)); if (r) c14_report("skinny64_set_tweaked_key", "null-object-accepted", cd, "returned %d", r); C14_END();
    C14_BEGIN("skinny64_set_tweak", "null-tks-tweak-64") LIB(r = skinny64_set_tweak(NULL, key, 8)); if (r) c14_report("skinny64_set_tweak", "null-object-accepted", cd, "returned %d", r); C14_END();
    C14_BEGIN("mantis_set_key", "null-ks-mantis") LIB(r = mantis_set_key(NULL, key, 16, 5, MANTIS_ENCRYPT)); if (r) c14_report("mantis_set_key", "null-object-accepted", cd, "returned %d", r); C14_END();
    C14_BEGIN("mantis_set_tweak", "null-ks-tweak-mantis") LIB(r = mantis_set_tweak(NULL, key, 8)); if (r) c14_report("mantis_set_tweak", "null-object-accepted", cd, "returned %d", r); C14_END();
    /* null key on valid schedule objects: returns 0, unchanged */
    for (prior = 0; prior < 2; ++prior) {
        Skinny128TweakedKey_t t128; Skinny64TweakedKey_t t64; MantisKey_t mk;
        memset(&t128, 0x42, sizeof(t128)); memset(&t64, 0x42, sizeof(t64)); memset(&mk, 0x42, sizeof(mk));
        if (prior) { skinny128_set_tweaked_key(&t128, key, 32); skinny64_set_tweaked_key(&t64, key, 16); mantis_set_key(&mk, key, 16, 7, MANTIS_DECRYPT); }
        C14_BEGIN("skinny128_set_key", "null-key-128") memcpy(a, &t128, sizeof(t128)); LIB(r = skinny128_set_key(&t128.ks, NULL, 16));
            if (r || memcmp(a, &t128, sizeof(t128))) c14_report("skinny128_set_key", "null-key", cd, "returned %d or changed the schedule", r); C14_END();
        C14_BEGIN("skinny128_set_tweaked_key", "null-key-t128") memcpy(a, &t128, sizeof(t128)); LIB(r = skinny128_set_tweaked_key(&t128, NULL, 16));
            if (r || memcmp(a, &t128, sizeof(t128))) c14_report("skinny128_set_tweaked_key", "null-key", cd, "returned %d or changed the schedule", r); C14_END();
        C14_BEGIN("skinny64_set_key", "null-key-64") memcpy(a, &t64, sizeof(t64)); LIB(r = skinny64_set_key(&t64.ks, NULL, 8));
            if (r || memcmp(a, &t64, sizeof(t64))) c14_report("skinny64_set_key", "null-key", cd, "returned %d or changed the schedule", r); C14_END();
        C14_BEGIN("skinny64_set_tweaked_key", "null-key-t64") memcpy(a, &t64, sizeof(t64)); LIB(r = skinny64_set_tweaked_key(&t64, NULL, 8));
            if (r || memcmp(a, &t64, sizeof(t64))) c14_report("skinny64_set_tweaked_key", "null-key", cd, "returned %d or changed the schedule", r); C14_END();
        C14_BEGIN("mantis_set_key", "null-key-mantis") memcpy(a, &mk, sizeof(mk)); LIB(r = mantis_set_key(&mk, NULL, 16, 5, MANTIS_ENCRYPT));
            if (r || memcmp(a, &mk, sizeof(mk))) c14_report("mantis_set_key", "null-key", cd, "returned %d or changed the schedule", r); C14_END();
        {
            /* out of range, among them lengths that equal a legal one modulo 2^8 and 2^16 */
            unsigned bad128[] = {0, 17, 255, UINT_MAX, 256, 257, 264, 272, 512 + 16, 65536 + 16, 0x1000010u}, bad64[] = {0, 9, 255, UINT_MAX, 256, 257, 260, 264, 512 + 8, 65536 + 8, 0x1000008u},
                     badm[] = {0, 7, 9, 16, UINT_MAX, 264, 65536 + 8}; unsigned i;
            for (i = 0; i < sizeof(bad128) / sizeof(bad128[0]); ++i) {
                C14_BEGIN("skinny128_set_tweak", "null-tweak-bad-len-128") memcpy(a, &t128, sizeof(t128)); LIB(r = skinny128_set_tweak(&t128, NULL, bad128[i]));
                    if (r || memcmp(a, &t128, sizeof(t128))) c14_report("skinny128_set_tweak", "null-tweak-bad-length", cd, "NULL tweak with size %u: returned %d or changed the schedule", bad128[i], r); C14_END();
                C14_BEGIN("skinny64_set_tweak", "null-tweak-bad-len-64") memcpy(a, &t64, sizeof(t64)); LIB(r = skinny64_set_tweak(&t64, NULL, bad64[i]));
                    if (r || memcmp(a, &t64, sizeof(t64))) c14_report("skinny64_set_tweak", "null-tweak-bad-length", cd, "NULL tweak with size %u: returned %d or changed the schedule", bad64[i], r); C14_END();
                C14_BEGIN("skinny128_set_tweak", "bad-tweak-len-128") memcpy(a, &t128, sizeof(t128)); LIB(r = skinny128_set_tweak(&t128, flush_buf(key, 1), bad128[i]));
                    if (r || memcmp(a, &t128, sizeof(t128))) c14_report("skinny128_set_tweak", "bad-length", cd, "tweak size %u: returned %d or changed the schedule", bad128[i], r); C14_END();
                C14_BEGIN("skinny64_set_tweak", "bad-tweak-len-64") memcpy(a, &t64, sizeof(t64)); LIB(r = skinny64_set_tweak(&t64, flush_buf(key, 1), bad64[i]));
                    if (r || memcmp(a, &t64, sizeof(t64))) c14_report("skinny64_set_tweak", "bad-length", cd, "tweak size %u: returned %d or changed the schedule", bad64[i], r); C14_END();
            }
            for (i = 0; i < sizeof(badm) / sizeof(badm[0]); ++i) {
                C14_BEGIN("mantis_set_tweak", "null-tweak-bad-len-mantis") memcpy(a, &mk, sizeof(mk)); LIB(r = mantis_set_tweak(&mk, NULL, badm[i]));
                    if (r || memcmp(a, &mk, sizeof(mk))) c14_report("mantis_set_tweak", "null-tweak-bad-length", cd, "NULL tweak with size %u: returned %d or changed the schedule", badm[i], r); C14_END();
                C14_BEGIN("mantis_set_tweak", "bad-tweak-len-mantis") memcpy(a, &mk, sizeof(mk)); LIB(r = mantis_set_tweak(&mk, flush_buf(key, 1), badm[i]));
                    if (r || memcmp(a, &mk, sizeof(mk))) c14_report("mantis_set_tweak", "bad-length", cd, "tweak size %u: returned %d or changed the schedule", badm[i], r); C14_END();
            }
        }
    }
    /* parallel objects: states x invalid classes */
    for (c = 0; c < 3; ++c) for (be = 0; be <= cipher_max_be((Cipher)c); ++be) {
        int state, bs = cipher_bs((Cipher)c);
        static const char *st[] = {"zeroed", "initialised", "keyed", "cleaned-up"};
        for (state = 0; state < 4; ++state) {
            ParObj o; size_t la, lb; int cls; uint8_t in[300], out[300], out2[300], tw[300];
            const char *pfn = c == 0 ? "skinny128_parallel_ecb" : (c == 1 ? "skinny64_parallel_ecb" : "mantis_parallel_ecb");
            int km, im;
            /* Mantis: the direction the object was keyed in x the direction named by the invalid call */
            for (km = 0; km < (c == CK_MANTIS ? 2 : 1); ++km) for (im = 0; im < (c == CK_MANTIS ? 2 : 1); ++im)
            for (cls = 0; cls < 14; ++cls) {
                char d2[120];
                const int KM = km ? MANTIS_DECRYPT : MANTIS_ENCRYPT, IM = im ? MANTIS_DECRYPT : MANTIS_ENCRYPT;
                if (c == CK_MANTIS) snprintf(d2, sizeof(d2), "par %d %d %d %d keyed-%s call-%s", c, be, state, cls, km ? "decrypt" : "encrypt", im ? "decrypt" : "encrypt");
                else snprintf(d2, sizeof(d2), "par %d %d %d %d", c, be, state, cls);
                snprintf(cd, sizeof(cd), "c14s %s", d2);
                if (guard_enter("C14/parallel", cd)) continue;
                ++g_cnt.evaluations; distinct_add_u64(fnv1a(cd, strlen(cd), 14));
                arena_reset(); memset(&o, 0, sizeof(o));
                lcg_fill(in, sizeof(in), 3); lcg_fill(tw, sizeof(tw), 4); memset(out, 0xEE, sizeof(out)); memset(out2, 0xEE, sizeof(out2));
                if (state >= 1) par_init((Cipher)c, be, &o);
                if (state >= 2) par_set_key((Cipher)c, &o, key, c == CK_MANTIS ? 16 : (unsigned)bs, 5, KM);
                if (state == 3) par_cleanup((Cipher)c, &o);
                if (state == 2) par_crypt((Cipher)c, &o, out2, in, tw, (size_t)bs * 9, 0);
                la = par_image((Cipher)c, &o, a, sizeof(a));
                r = 0;
                switch (cls) {
                case 0: r = par_set_key((Cipher)c, NULL, key, c == CK_MANTIS ? 16 : (unsigned)bs, 5, IM); break;
                case 1: r = par_set_key((Cipher)c, &o, NULL, c == CK_MANTIS ? 16 : (unsigned)bs, 5, IM); break;
                case 2: r = par_set_key((Cipher)c, &o, flush_buf(key, 1), (unsigned)bs - 1, 5, IM); break;
                case 3: r = par_set_key((Cipher)c, &o, flush_buf(key, 1), c == CK_MANTIS ? 17 : 3u * (unsigned)bs + 1, 5, IM); break;
                case 4: r = par_crypt((Cipher)c, NULL, out, in, tw, (size_t)bs, 0); break;
                case 5: r = par_crypt((Cipher)c, &o, out, in, tw, 1, 0); break;
                case 6: r = par_crypt((Cipher)c, &o, out, in, tw, (size_t)bs + 1, 1); break;
                case 7: r = par_crypt((Cipher)c, &o, out, in, tw, (size_t)par_batch((Cipher)c, be) + 1, 0); break;
                case 8: if (c == CK_MANTIS) r = par_set_key((Cipher)c, &o, key, 16, 9, IM); else r = par_crypt((Cipher)c, &o, out, in, tw, (size_t)bs - 1, 0); break;
                /* ragged byte counts that contain whole vector batches, in the decrypt direction too */
                case 9: r = par_crypt((Cipher)c, &o, out, in, tw, (size_t)par_batch((Cipher)c, be) + 1, 1); break;
                case 10: r = par_crypt((Cipher)c, &o, out, in, tw, 2 * (size_t)par_batch((Cipher)c, be) + (size_t)bs + 3, 1); break;
                case 11: r = par_crypt((Cipher)c, &o, out, in, tw, 2 * (size_t)par_batch((Cipher)c, be) + (size_t)bs - 1, 0); break;
                /* Mantis: round counts that equal a legal one modulo 32 / modulo 2^31; Skinny: a key one byte over the maximum */
                case 12: if (c == CK_MANTIS) r = par_set_key((Cipher)c, &o, key, 16, 38, IM); else r = par_set_key((Cipher)c, &o, key, 3u * (unsigned)bs + 1, 5, IM); break;
                default: if (c == CK_MANTIS) r = par_set_key((Cipher)c, &o, key, 16, 0x80000005u, IM); else r = par_set_key((Cipher)c, &o, key, 0x80000000u + (unsigned)bs, 5, IM); break;
                }
                lb = par_image((Cipher)c, &o, b, sizeof(b));
                if (r != 0) { char fn[80]; snprintf(fn, sizeof(fn), "%s_%s", pfn, cls <= 3 || cls >= 12 || (cls == 8 && c == CK_MANTIS) ? "set_key" : "crypt"); c14_report(fn, "invalid-call-return", cd, "invalid call class %d on a %s object (%s) returned %d", cls, st[state], be_name(be), r); }
                if (la != lb || memcmp(a, b, la) != 0) { char fn[80]; snprintf(fn, sizeof(fn), "%s", pfn); c14_report(fn, "invalid-call-changed-object", cd, "invalid call class %d changed a %s object", cls, st[state]); }
                { int i2; for (i2 = 0; i2 < 300; ++i2) if (out[i2] != 0xEE) { c14_report(pfn, "invalid-call-wrote-output", cd, "invalid call class %d wrote to the output buffer", cls); break; } }
                if (!arena_check_canaries()) c14_report(pfn, "invalid-call-wrote-outside", cd, "allocator slack modified");
                if (state == 2) {   /* later results as if the call had not been made */
                    uint8_t out3[300]; memset(out3, 0xEE, sizeof(out3));
                    par_crypt((Cipher)c, &o, out3, in, tw, (size_t)bs * 9, 0);
                    if (memcmp(out3, out2, sizeof(out3)) != 0) c14_report(pfn, "later-results-changed", cd, "results after the invalid call (class %d) differ", cls);
                }
                /* calls on dead objects must return 0 */
                if (state != 2 && state != 1) {
                    r = par_crypt((Cipher)c, &o, out, in, tw, (size_t)bs, 0); if (r) c14_report(pfn, "dead-object-accepted", cd, "crypt on a %s object returned %d", st[state], r);
                    /* the decrypt entry point, one block and a batch plus a block */
                    r = par_crypt((Cipher)c, &o, out, in, tw, (size_t)bs, 1); if (r) c14_report(pfn, "dead-object-accepted", cd, "decrypt of one block on a %s object returned %d", st[state], r);
                    r = par_crypt((Cipher)c, &o, out, in, tw, (size_t)par_batch((Cipher)c, be) + (size_t)bs, 1); if (r) c14_report(pfn, "dead-object-accepted", cd, "decrypt of a batch and a block on a %s object returned %d", st[state], r);
                }
                par_cleanup((Cipher)c, &o);
                guard_leave();
            }
        }
    }
    /* valid calls must return 1: every documented key length through the parallel key-setting functions, on a fresh
     * and on an already keyed object */
    for (c = 0; c < 2; ++c) for (be = 0; be <= cipher_max_be((Cipher)c); ++be) {
        int bs = cipher_bs((Cipher)c), len, twice;
        for (len = bs; len <= 3 * bs; ++len) for (twice = 0; twice < 2; ++twice) {
            ParObj o; const char *pfn = c == 0 ? "skinny128_parallel_ecb_set_key" : "skinny64_parallel_ecb_set_key";
            snprintf(cd, sizeof(cd), "c14s parvalid %d %d %d %d", c, be, len, twice);
            if (guard_enter("C14/parallel", cd)) continue;
            ++g_cnt.evaluations;
            arena_reset(); memset(&o, 0, sizeof(o));
            par_init((Cipher)c, be, &o);
            if (twice) par_set_key((Cipher)c, &o, key + 5, (unsigned)(2 * bs), 5, MANTIS_ENCRYPT);
            r = par_set_key((Cipher)c, &o, key, (unsigned)len, 5, MANTIS_ENCRYPT);
            if (r != 1) c14_report(pfn, "valid-call-rejected", cd, "a documented key length of %d bytes returned %d on a %s object (%s)", len, r, twice ? "keyed" : "fresh", be_name(be));
            par_cleanup((Cipher)c, &o);
            guard_leave();
        }
    }
    /* documented null meanings that must succeed: null tweak (Skinny, Mantis) == zero tweak */
    {
        Skinny128TweakedKey_t t1, t2; Skinny64TweakedKey_t u1, u2; MantisKey_t m1, m2; static const uint8_t z[16] = {0};
        memset(&t1, 0, sizeof(t1)); memset(&t2, 0, sizeof(t2)); memset(&u1, 0, sizeof(u1)); memset(&u2, 0, sizeof(u2)); memset(&m1, 0, sizeof(m1)); memset(&m2, 0, sizeof(m2));
        skinny128_set_tweaked_key(&t1, key, 16); skinny128_set_tweaked_key(&t2, key, 16); skinny128_set_tweak(&t1, key + 3, 16); skinny128_set_tweak(&t2, key + 3, 16);
        C14_BEGIN("skinny128_set_tweak", "null-tweak-128") LIB(r = skinny128_set_tweak(&t1, NULL, 16)); skinny128_set_tweak(&t2, z, 16);
            if (r != 1 || memcmp(&t1, &t2, sizeof(t1))) c14_report("skinny128_set_tweak", "null-tweak", cd, "NULL tweak returned %d / differs from the zero tweak", r); C14_END();
        skinny64_set_tweaked_key(&u1, key, 8); skinny64_set_tweaked_key(&u2, key, 8); skinny64_set_tweak(&u1, key + 3, 8); skinny64_set_tweak(&u2, key + 3, 8);
        C14_BEGIN("skinny64_set_tweak", "null-tweak-64") LIB(r = skinny64_set_tweak(&u1, NULL, 8)); skinny64_set_tweak(&u2, z, 8);
            if (r != 1 || memcmp(&u1, &u2, sizeof(u1))) c14_report("skinny64_set_tweak", "null-tweak", cd, "NULL tweak returned %d / differs from the zero tweak", r); C14_END();
        mantis_set_key(&m1, key, 16, 5, MANTIS_ENCRYPT); mantis_set_key(&m2, key, 16, 5, MANTIS_ENCRYPT); mantis_set_tweak(&m1, key + 3, 8); mantis_set_tweak(&m2, key + 3, 8);
        C14_BEGIN("mantis_set_tweak", "null-tweak-mantis") LIB(r = mantis_set_tweak(&m1, NULL, 8)); mantis_set_tweak(&m2, z, 8);
            if (r != 1 || memcmp(&m1, &m2, sizeof(m1))) c14_report("mantis_set_tweak", "null-tweak", cd, "NULL tweak returned %d / differs from the zero tweak", r); C14_END();
    }
    /* init(NULL) for all six object kinds */
    for (c = 0; c < 3; ++c) {
        C14_BEGIN("ctr_init", "ctr-init-null") arena_reset(); r = ctr_init((Cipher)c, 0, NULL);
            if (r || arena_live()) c14_report("ctr_init", "null-object", cd, "%s_ctr_init(NULL) returned %d, %d block(s) leaked", cipher_name((Cipher)c), r, arena_live()); C14_END();
        C14_BEGIN("parallel_ecb_init", "par-init-null") arena_reset(); r = par_init((Cipher)c, 0, NULL);
            if (r || arena_live()) c14_report("parallel_ecb_init", "null-object", cd, "%s_parallel_ecb_init(NULL) returned %d, %d block(s) leaked", cipher_name((Cipher)c), r, arena_live()); C14_END();
        C14_BEGIN("cleanup", "cleanup-null") arena_reset(); ctr_cleanup((Cipher)c, NULL); par_cleanup((Cipher)c, NULL); if (c == CK_MANTIS) par_swap_modes(NULL); C14_END();
    }
    sample_add("schedule-level menu: NULL schedule / NULL key / bad tweak sizes on garbage and valid schedules; parallel objects {zeroed, initialised, keyed, cleaned-up} x 9 invalid classes x back ends; init(NULL), cleanup(NULL)");
}

static void body(void)
{
    if (ref_selftest() != 0) engine_error("reference self-test failed");
    guard_setup();
    if (!strcmp(g_opts.sub, "c10")) run_c10();
    else if (!strcmp(g_opts.sub, "c14s")) { if (g_opts.shard == 0) run_c14s(); else distinct_add_u64(1); }
    else engine_error("unknown sub");
}

int main(int argc, char **argv)
{
    parse_opts(argc, argv);
    run_prelude();
    if (!g_opts.sub) engine_error("--sub required");
    return mc_guarded_main(body);
}
