/*
 * Object life cycle worlds: C15 (init / use / cleanup in any order, two objects),
 * C17 (cleanup erases the whole allocation before it reaches free) and C16
 * (failure of each allocation of each init, fault enumeration).
 * The allocator seam (alloc.c) provides the ledger, guard pages, the wipe check at
 * free() and fail_at.
 */
#include "common.h"
#include "alloc.h"
#include "obj.h"
#include "mc.h"
#include <string.h>
#include <stdlib.h>

enum { OK_CTR, OK_PAR };
enum { PH_ZERO, PH_LIVE, PH_CLEANED, PH_FAILED };
enum { L_INIT, L_KEY, L_TKEY, L_TWEAK, L_CTR, L_USE, L_USEBIG, L_SWAP, L_CLEANUP, L_KEYSHORT, L_USE0, L_INITFAIL, L_USEDEC, L_KEYBAD, L_SETBAD };

static int g_mode;               /* 15 or 17 */
static int g_okind; static Cipher g_c; static int g_be, g_bs;
static uint8_t KEYS[2][48];

typedef struct { int type, obj; } LOp;
static LOp l_ops[64]; static int l_nops;

typedef struct {
    union { CtrObj c; ParObj p; } h;
    int phase, keyed, ncalls;
    int owned[4], nowned;        /* ledger records allocated by this object's init */
} LObj;

static struct {
    LObj o[2];
    int depth;
    uint64_t first_init_digest[2]; int have_first[2];
} LW;

static const char *okname(void) { return g_okind == OK_CTR ? "ctr" : "parallel"; }

static void l_build(void)
{
    int i;
    l_nops = 0;
    for (i = 0; i < 2; ++i) {
        l_ops[l_nops].type = L_INIT; l_ops[l_nops++].obj = i;
        if (g_mode == 15 && i == 0) { l_ops[l_nops].type = L_INITFAIL; l_ops[l_nops++].obj = i; }   /* init whose first allocation request is refused: a dead object */
        l_ops[l_nops].type = L_KEY; l_ops[l_nops++].obj = i;
        if (g_c != CK_MANTIS && (g_mode == 17 || i == 0)) { l_ops[l_nops].type = L_KEYSHORT; l_ops[l_nops++].obj = i; }   /* re-key with the shortest key: fewer rounds than before */
        if (g_okind == OK_CTR) {
            if (g_c != CK_MANTIS) { l_ops[l_nops].type = L_TKEY; l_ops[l_nops++].obj = i; }
            if (g_mode == 17 || i == 0) { l_ops[l_nops].type = L_TWEAK; l_ops[l_nops++].obj = i; }
            l_ops[l_nops].type = L_CTR; l_ops[l_nops++].obj = i;
        }
        l_ops[l_nops].type = L_USE; l_ops[l_nops++].obj = i;
        if (g_mode == 15) { l_ops[l_nops].type = L_USE0; l_ops[l_nops++].obj = i; }      /* zero-length request: still 0 on a dead object */
        if (g_mode == 17 || i == 0) { l_ops[l_nops].type = L_KEYBAD; l_ops[l_nops++].obj = i; }   /* a key-setting call that must be refused: the object's life cycle goes on as before */
        if (g_okind == OK_CTR && (g_mode == 17 || i == 0)) { l_ops[l_nops].type = L_SETBAD; l_ops[l_nops++].obj = i; }   /* the other setters with a length that must be refused (round 16: a refusing setter may "tidy up") */
        if (g_okind == OK_PAR && g_c != CK_MANTIS && (g_mode == 17 || i == 0)) { l_ops[l_nops].type = L_USEDEC; l_ops[l_nops++].obj = i; }   /* the decrypt entry point */
        if (g_mode == 17 && g_okind == OK_CTR) { l_ops[l_nops].type = L_USEBIG; l_ops[l_nops++].obj = i; }
        if (g_okind == OK_PAR && g_c == CK_MANTIS) { l_ops[l_nops].type = L_SWAP; l_ops[l_nops++].obj = i; }
        l_ops[l_nops].type = L_CLEANUP; l_ops[l_nops++].obj = i;
        if (g_mode == 17) break;      /* C17 drives one object with a richer alphabet */
    }
}

static void l_reset(void)
{
    arena_reset();
    memset(&LW, 0, sizeof(LW));
}

static int l_enabled(int op)
{
    const LOp *o = &l_ops[op];
    const LObj *b = &LW.o[o->obj];
    if (o->type == L_INIT || o->type == L_INITFAIL) return b->phase != PH_LIVE;      /* init over a live object is the caller's leak: excluded */
    if (g_mode == 17) {
        if (b->phase != PH_LIVE) return 0;
        if (o->type == L_TWEAK) return b->keyed == 2 || (g_c == CK_MANTIS && b->keyed);
        if (o->type == L_USE || o->type == L_USEBIG || o->type == L_USEDEC) return b->keyed && b->ncalls < 3;
        return b->ncalls < 6 || o->type == L_CLEANUP;
    }
    if (o->type == L_CLEANUP) return 1;
    return b->ncalls < 3;    /* a few non-cleanup calls per phase; phase changes reset the budget */
}

static void l_opname(int op, char *buf, size_t n)
{
    static const char *nm[] = {"init", "set_key", "set_tweaked_key", "set_tweak", "set_counter", "use", "use(batch+3)", "swap_modes", "cleanup", "set_key(shortest)", "use(0 bytes)", "init[allocation refused]", "use(decrypt)", "set_key(refused)", "set_tweak/set_counter/set_tweaked_key(refused lengths)"};
    snprintf(buf, n, "%s(obj%d)", nm[l_ops[op].type], l_ops[op].obj);
}

static void l_report(const char *cls, int op, const char *fmt, ...)
{
    char sig[220], detail[1200], on[64]; va_list ap;
    va_start(ap, fmt); vsnprintf(detail, sizeof(detail), fmt, ap); va_end(ap);
    l_opname(op, on, sizeof(on));
    *strchr(on, '(') = 0;
    snprintf(sig, sizeof(sig), "C%d/%s/%s/%s/%s/%s", g_mode, okname(), cipher_name(g_c), be_name(g_be), cls, on);
    violation(sig, mc_casedesc(), "%s | history: %s", detail, mc_history_text());
}

static const void *obj_ctx(const LObj *b) { return g_okind == OK_CTR ? b->h.c.raw.ctx : b->h.p.raw.ctx; }

/* digest of the owned block contents, addresses normalised, slot number excluded */
static uint64_t content_digest(const LObj *b)
{
    uint64_t h = FNV_INIT; int i;
    for (i = 0; i < b->nowned; ++i) {
        AllocRec *r = arena_rec(b->owned[i]);
        size_t k;
        if (!r || !r->live) continue;
        h = fnv1a(&r->size, sizeof(r->size), h);
        {   /* the context may sit at different offsets inside its block (the allocator alternates the block's
             * address modulo 32): self-pointers are normalised first, then leading and trailing zero bytes
             * are left out of the comparison */
            static uint8_t tmp[32768]; size_t lo = 0, hi = r->size;
            if (r->size > sizeof(tmp)) engine_error("content_digest: block too large");
            memcpy(tmp, r->ptr, r->size);
            for (k = 0; k + 8 <= r->size; ++k) {
                uint64_t w; memcpy(&w, tmp + k, 8);
                if (w == (uint64_t)(uintptr_t)r->ptr) { w = 0xBA5EBA5EBA5EBA5EULL; memcpy(tmp + k, &w, 8); k += 7; }
            }
            while (lo < hi && tmp[lo] == 0) ++lo;
            while (hi > lo && tmp[hi - 1] == 0) --hi;
            h = fnv1a(tmp + lo, hi - lo, h);
        }
    }
    return h;
}

static int count_frees(void)
{
    int i, n = 0;
    for (i = 0; i < arena_count(); ++i) n += arena_rec(i)->freed;
    return n;
}

static void l_apply(int op, int check)
{
    const LOp *o = &l_ops[op];
    LObj *b = &LW.o[o->obj];
    int r = -1, calls0 = g_alloc_calls, frees0 = count_frees(), recs0 = arena_count(), live0 = arena_live();
    static uint8_t in[512], out[512], tw[64];
    static const uint8_t ctrv[16] = {0xFF,0xFF,0xFF,0xFF,0xFF,0xFF,0xFF,0xFF,0xFF,0xFF,0xFF,0xFF,0xFF,0xFF,0xFF,0xFE};
    int nonzero_before = 0, i;

    lcg_fill(in, sizeof(in), 5); lcg_fill(tw, sizeof(tw), 6);
    switch (o->type) {
    case L_INIT:
        if (g_okind == OK_CTR) r = ctr_init(g_c, g_be, &b->h.c); else r = par_init(g_c, g_be, &b->h.p);
        if (r) {
            b->nowned = 0;
            for (i = recs0; i < arena_count() && b->nowned < 4; ++i) b->owned[b->nowned++] = i;
            b->phase = PH_LIVE; b->keyed = 0; b->ncalls = 0;
        }
        if (check) {
            if (!r) l_report("init-failed", op, "init returned 0 without an allocation failure");
            else {
                uint64_t dg = content_digest(b);
                if (b->nowned < 1) l_report("no-allocation", op, "init made no allocator request (calloc/malloc not seen)");
                if (arena_live() != live0 + b->nowned) l_report("ledger", op, "live blocks %d -> %d but init allocated %d", live0, arena_live(), b->nowned);
                if (!obj_ctx(b) || !arena_find(obj_ctx(b)) || !arena_find(obj_ctx(b))->live) l_report("ctx-not-owned", op, "ctx does not point into a live block of this object");
                if (LW.have_first[o->obj] && dg != LW.first_init_digest[o->obj])
                    l_report("reinit-differs", op, "context contents after re-initialisation differ from the first initialisation");
                if (!LW.have_first[o->obj]) { LW.have_first[o->obj] = 1; LW.first_init_digest[o->obj] = dg; }
            }
        } else if (r && !LW.have_first[o->obj]) { LW.have_first[o->obj] = 1; LW.first_init_digest[o->obj] = content_digest(b); }
        break;
    case L_INITFAIL:
        g_fail_at = g_alloc_calls + 1;
        if (g_okind == OK_CTR) r = ctr_init(g_c, g_be, &b->h.c); else r = par_init(g_c, g_be, &b->h.p);
        g_fail_at = 0;
        if (check) {
            if (r) l_report("init-succeeded-after-refused-allocation", op, "init returned %d although its first allocation request was refused", r);
            if (arena_live() != live0) l_report("leak", op, "a failed init left %d more live block(s)", arena_live() - live0);
        }
        if (r) {   /* keep the model in step with what the library did */
            b->nowned = 0;
            for (i = recs0; i < arena_count() && b->nowned < 4; ++i) if (arena_rec(i)->live) b->owned[b->nowned++] = i;
            b->phase = PH_LIVE; b->keyed = 0; b->ncalls = 0;
        } else { b->phase = PH_FAILED; b->keyed = 0; b->ncalls = 0; b->nowned = 0; }
        break;
    case L_KEY:
        if (g_okind == OK_CTR) r = ctr_set_key(g_c, &b->h.c, KEYS[0], g_c == CK_MANTIS ? 16 : (unsigned)g_bs * 3, 7);
        else r = par_set_key(g_c, &b->h.p, KEYS[0], g_c == CK_MANTIS ? 16 : (unsigned)g_bs * 3, 6, MANTIS_ENCRYPT);
        if (b->phase == PH_LIVE) b->keyed = 1;
        break;
    case L_KEYSHORT:
        if (g_okind == OK_CTR) r = ctr_set_key(g_c, &b->h.c, KEYS[1], (unsigned)g_bs, 5);
        else r = par_set_key(g_c, &b->h.p, KEYS[1], (unsigned)g_bs, 5, MANTIS_ENCRYPT);
        if (b->phase == PH_LIVE) b->keyed = 1;
        break;
    case L_KEYBAD:     /* Mantis: 4 rounds; Skinny: one byte less than a block */
        if (g_okind == OK_CTR) r = ctr_set_key(g_c, &b->h.c, KEYS[1], g_c == CK_MANTIS ? 16 : (unsigned)g_bs - 1, 4);
        else r = par_set_key(g_c, &b->h.p, KEYS[1], g_c == CK_MANTIS ? 16 : (unsigned)g_bs - 1, 4, MANTIS_ENCRYPT);
        if (check && r != 0) l_report("invalid-key-accepted", op, "a key-setting call that must be refused returned %d", r);
        r = -2;
        break;
    case L_SETBAD: {   /* one byte more than a block for tweak and counter, one byte less than a block for a tweaked key */
        int r1 = ctr_set_tweak(g_c, &b->h.c, tw, (unsigned)g_bs + 1), r2 = ctr_set_counter(g_c, &b->h.c, in, (unsigned)g_bs + 1);
        int r3 = g_c == CK_MANTIS ? 0 : ctr_set_tweaked_key(g_c, &b->h.c, KEYS[1], (unsigned)g_bs - 1);
        if (check && (r1 || r2 || r3)) l_report("invalid-length-accepted", op, "set_tweak / set_counter / set_tweaked_key with a length that must be refused returned %d / %d / %d", r1, r2, r3);
        r = -2;
        break;
    }
    case L_TKEY:
        r = ctr_set_tweaked_key(g_c, &b->h.c, KEYS[1], (unsigned)g_bs * 2);
        if (b->phase == PH_LIVE) b->keyed = 2;
        break;
    case L_TWEAK:
        r = ctr_set_tweak(g_c, &b->h.c, tw, (unsigned)g_bs);
        if (g_mode == 15 && b->phase == PH_LIVE && !(b->keyed == 2 || (g_c == CK_MANTIS && b->keyed))) r = -2;  /* not a defined use; return value not judged */
        break;
    case L_CTR:
        r = ctr_set_counter(g_c, &b->h.c, ctrv + 16 - g_bs, (unsigned)g_bs);
        break;
    case L_USE: case L_USEBIG: {
        size_t n = o->type == L_USE ? 5 : (size_t)ctr_batch(g_c, g_be) + 3;
        if (g_okind == OK_CTR) r = ctr_encrypt(g_c, &b->h.c, out, in, n);
        else r = par_crypt(g_c, &b->h.p, out, in, tw, (size_t)par_batch(g_c, cipher_max_be(g_c)) + (size_t)g_bs, 0);   /* one widest batch plus a block, whatever back end serves the object */
        break; }
    case L_USEDEC:
        r = par_crypt(g_c, &b->h.p, out, in, tw, (size_t)par_batch(g_c, cipher_max_be(g_c)) + (size_t)g_bs, 1);
        break;
    case L_USE0:
        if (g_okind == OK_CTR) r = ctr_encrypt(g_c, &b->h.c, out, in, 0);
        else r = par_crypt(g_c, &b->h.p, out, in, tw, 0, 0);
        break;
    case L_SWAP:
        par_swap_modes(&b->h.p); r = -2;
        break;
    case L_CLEANUP:
        if (check && b->phase == PH_LIVE)
            for (i = 0; i < b->nowned; ++i) { AllocRec *rc = arena_rec(b->owned[i]); size_t k; if (!rc->live) continue;   /* released by an earlier call (its page is unreadable now): judged after the cleanup below */
                for (k = 0; k < rc->size; ++k) nonzero_before += rc->ptr[k] != 0; }
        if (g_okind == OK_CTR) ctr_cleanup(g_c, &b->h.c); else par_cleanup(g_c, &b->h.p);
        r = -2;
        break;
    }
    if (o->type != L_INIT && o->type != L_INITFAIL && o->type != L_CLEANUP) ++b->ncalls;

    if (check) {
        if (g_lerr.foreign_free || g_lerr.double_free || g_lerr.interior_free)
            l_report("allocator-misuse", op, "foreign_free=%d double_free=%d interior_free=%d (pointer not returned by the allocator, or freed twice)",
                     g_lerr.foreign_free, g_lerr.double_free, g_lerr.interior_free);
        if (!arena_check_canaries()) l_report("heap-overrun", op, "bytes outside an allocated block were modified");
        if (o->type == L_CLEANUP) {
            if (b->phase == PH_LIVE) {
                int freed_owned = 0;
                for (i = 0; i < b->nowned; ++i) {
                    AllocRec *rc = arena_rec(b->owned[i]);
                    freed_owned += rc->freed && !rc->live;
                    if (rc->live && g_mode == 17) {
                        /* cleanup kept the block: the key-dependent state in it must be gone all the same */
                        size_t k; int nz = 0;
                        for (k = 0; k < rc->size; ++k) nz += rc->ptr[k] != 0;
                        ++g_cnt.evaluations;
                        if (nz > 8)
                            l_report("not-erased", op, "cleanup neither erased nor released a block of %zu bytes: %d non-zero bytes are still in it (%d in the object's blocks before cleanup)",
                                     rc->size, nz, nonzero_before);
                    }
                    if (rc->freed && g_mode == 17) {
                        ++g_cnt.evaluations;
                        if (nonzero_before > 8) distinct_add_u64(fnv1a(mc_casedesc(), strlen(mc_casedesc()), 17));
                        if (rc->wiped != 1)
                            l_report("not-erased", op, "block of %zu bytes reached free() with a non-zero byte at offset %d (had %d non-zero bytes before cleanup)",
                                     rc->size, rc->first_dirty, nonzero_before);
                    }
                }
                if (g_mode == 15) {
                    if (freed_owned != b->nowned) l_report("leak", op, "cleanup released %d of the %d blocks the object's init allocated", freed_owned, b->nowned);
                    if (arena_live() != live0 - b->nowned) l_report("ledger", op, "live blocks %d -> %d, object owned %d", live0, arena_live(), b->nowned);
                }
            } else if (g_mode == 15) {
                if (g_alloc_calls != calls0 || count_frees() != frees0)
                    l_report("cleanup-touched-allocator", op, "cleanup of a %s object made allocator calls", b->phase == PH_ZERO ? "zeroed" : (b->phase == PH_FAILED ? "failed-init" : "cleaned-up"));
            }
        } else if (o->type != L_INIT && o->type != L_INITFAIL && g_mode == 15) {
            if (g_alloc_calls != calls0 || count_frees() != frees0) l_report("unexpected-allocation", op, "a non-init call used the allocator");
            if (b->phase != PH_LIVE && r != 0 && r != -2) l_report("dead-object-accepted", op, "call on a %s object returned %d", b->phase == PH_ZERO ? "zeroed" : (b->phase == PH_FAILED ? "failed-init" : "cleaned-up"), r);
            if (b->phase == PH_LIVE && r == 0 && (o->type == L_KEY || o->type == L_KEYSHORT || o->type == L_TKEY || o->type == L_CTR || ((o->type == L_USE || o->type == L_USE0 || o->type == L_USEDEC) && b->keyed)))
                l_report("live-object-rejected", op, "valid call on a live object returned 0");
        }
        /* conservation: blocks owned by live objects == live blocks */
        if (g_mode == 15) {
            int own = 0;
            for (i = 0; i < 2; ++i) if (LW.o[i].phase == PH_LIVE && &LW.o[i] != b) own += LW.o[i].nowned;
            if (o->type == L_CLEANUP && b->phase == PH_LIVE) { /* b just died */ }
            else if (b->phase == PH_LIVE) own += b->nowned;
            if (arena_live() != own) l_report("ledger", op, "%d live blocks but live objects own %d", arena_live(), own);
        }
    }
    if (o->type == L_CLEANUP) { if (b->phase == PH_LIVE || b->phase == PH_FAILED) b->phase = PH_CLEANED; else if (b->phase == PH_ZERO) b->phase = PH_ZERO; b->keyed = 0; b->ncalls = 0; b->nowned = 0; }
}

static size_t l_canon(uint8_t *buf, size_t cap)
{
    size_t o = 0; int i;
    for (i = 0; i < 2; ++i) {
        if (g_okind == OK_CTR) o += ctr_image(g_c, &LW.o[i].h.c, buf + o, cap - o);
        else o += par_image(g_c, &LW.o[i].h.p, buf + o, cap - o);
        memcpy(buf + o, &LW.o[i].phase, sizeof(int) * 3); o += sizeof(int) * 3;
    }
    i = arena_live(); memcpy(buf + o, &i, sizeof(int)); o += sizeof(int);
    i = arena_count(); memcpy(buf + o, &i, sizeof(int)); o += sizeof(int);
    return o;
}

static MCKind KIND; static char kname[96], ksig[96];

static int setup_kind(const char *name)
{
    int ok, c, be, mode, skew = 0;
    if (sscanf(name, "life%d-%d-%d-%d-s%d", &mode, &ok, &c, &be, &skew) < 4) return 0;
    g_alloc_skew_phase = skew & 1;
    g_mode = mode; g_okind = ok; g_c = (Cipher)c; g_be = be; g_bs = cipher_bs(g_c);
    l_build();
    memset(&KIND, 0, sizeof(KIND));
    snprintf(kname, sizeof(kname), "%s", name);
    snprintf(ksig, sizeof(ksig), "C%d/%s/%s/%s/crash", g_mode, okname(), cipher_name(g_c), be_name(g_be));
    KIND.name = kname; KIND.sigbase = ksig; KIND.nops = l_nops; KIND.reset = l_reset; KIND.enabled = l_enabled;
    KIND.apply = l_apply; KIND.canon = l_canon; KIND.opname = l_opname;
    KIND.max_depth = g_mode == 17 ? (tier_thorough() ? 9 : 8) : (tier_thorough() ? 9 : 6);
    KIND.world = &LW; KIND.world_size = sizeof(LW);
    return 1;
}

/* =========================================================== C16: allocation-failure enumeration */

static const char *PRIOR[] = {"zeros", "0xFF", "0xA5", "copy-of-live-object", "copy-of-cleaned-up-object", "painted (--paint pattern; poisoned under MemorySanitizer)"};
enum { F_CLEANUP, F_KEY, F_CTR, F_ENC, F_SWAP, F_CLEANUP2, F_KEY2, F_DEC, F_ENC0, F_NOPS };
static const char *FNAME[] = {"cleanup", "set_key", "set_counter", "use", "swap_modes", "cleanup", "set_key(other variant)", "use(other entry point / size)", "use(0 bytes)"};

static int f_call(int okind, Cipher c, void *h, int op)
{
    static uint8_t in[256], out[256], tw[256];
    CtrObj *co = h; ParObj *po = h;
    switch (op) {
    case F_CLEANUP: case F_CLEANUP2: if (okind == OK_CTR) ctr_cleanup(c, co); else par_cleanup(c, po); return 0;
    case F_KEY: return okind == OK_CTR ? ctr_set_key(c, co, KEYS[0], c == CK_MANTIS ? 16 : (unsigned)cipher_bs(c), 5)
                                       : par_set_key(c, po, KEYS[0], c == CK_MANTIS ? 16 : (unsigned)cipher_bs(c), 5, MANTIS_ENCRYPT);
    case F_KEY2:     /* Mantis: the other direction; Skinny: the longest key / the tweaked entry point */
        if (c == CK_MANTIS) return okind == OK_CTR ? ctr_set_key(c, co, KEYS[1], 16, 8) : par_set_key(c, po, KEYS[1], 16, 8, MANTIS_DECRYPT);
        return okind == OK_CTR ? ctr_set_tweaked_key(c, co, KEYS[1], (unsigned)cipher_bs(c) * 2) : par_set_key(c, po, KEYS[1], (unsigned)cipher_bs(c) * 3, 5, MANTIS_ENCRYPT);
    case F_CTR: return okind == OK_CTR ? ctr_set_counter(c, co, KEYS[1], (unsigned)cipher_bs(c)) : 0;
    case F_ENC: return okind == OK_CTR ? ctr_encrypt(c, co, out, in, 9) : par_crypt(c, po, out, in, tw, (size_t)par_batch(c, cipher_max_be(c)) + (size_t)cipher_bs(c), 0);
    case F_ENC0:     /* an empty request is still a request on a dead object */
        return okind == OK_CTR ? ctr_encrypt(c, co, out, in, 0) : par_crypt(c, po, out, in, tw, 0, 0);
    case F_DEC:      /* the other data entry point: parallel decrypt (Mantis has one entry point: a single block); CTR: a request longer than a batch */
        return okind == OK_CTR ? ctr_encrypt(c, co, out, in, (size_t)ctr_batch(c, cipher_max_be(c)) + 3)
                               : par_crypt(c, po, out, in, tw, c == CK_MANTIS ? (size_t)cipher_bs(c) : (size_t)par_batch(c, cipher_max_be(c)) + (size_t)cipher_bs(c), 1);
    default: if (okind == OK_PAR && c == CK_MANTIS) par_swap_modes(po); return 0;
    }
}

static int canary_run(const uint8_t *p, size_t n) { size_t i; for (i = 0; i < n; ++i) if (p[i] != 0xC3) return 0; return 1; }

static void c16_case(int okind, Cipher c, int be, int prior, int failk, int s0, int s1, int s2)
{
    typedef union { CtrObj c; ParObj p; } AnyObj;
    AnyObj other, cleaned;
    /* the object of the failing init sits between canary bytes: exactly the library's handle type is its extent */
    static uint8_t vbuf[192] __attribute__((aligned(32)));
    const size_t hs = okind == OK_CTR ? sizeof(Skinny128CTR_t) : sizeof(Skinny128ParallelECB_t);
    AnyObj *const vp = (AnyObj *)(void *)(vbuf + 64);
#define victim (*vp)
#define VICTIM_CANARIES_OK() (canary_run(vbuf, 64) && canary_run(vbuf + 64 + hs, sizeof(vbuf) - 64 - hs))
    char cd[160], sig[200], sb[96];
    int r, seq[3], nseq = 0, i, allocs_needed, live_other;
    uint8_t oimg[8192], oimg2[8192]; size_t ol, ol2;
    snprintf(cd, sizeof(cd), "c16 %d %d %d %d %d %d %d %d", okind, (int)c, be, prior, failk, s0, s1, s2);
    snprintf(sb, sizeof(sb), "C16/%s/%s/%s", okind == OK_CTR ? "ctr" : "parallel", cipher_name(c), be_name(be));
    if (guard_enter(sb, cd)) return;
    ++g_cnt.evaluations;
    if (s0 >= 0) seq[nseq++] = s0;
    if (s1 >= 0) seq[nseq++] = s1;
    if (s2 >= 0) seq[nseq++] = s2;
    arena_reset(); g_fail_at = 0;
    memset(&other, 0, sizeof(other)); memset(&cleaned, 0, sizeof(cleaned));
    /* a live neighbour object whose block must survive everything */
    r = okind == OK_CTR ? ctr_init(c, be, &other.c) : par_init(c, be, &other.p);
    if (!r) engine_error("neighbour init failed");
    f_call(okind, c, &other, F_KEY);
    allocs_needed = g_alloc_calls;
    /* a cleaned-up object (its bytes serve as one of the prior contents) */
    r = okind == OK_CTR ? ctr_init(c, be, &cleaned.c) : par_init(c, be, &cleaned.p);
    if (!r) engine_error("second init failed");
    if (okind == OK_CTR) ctr_cleanup(c, &cleaned.c); else par_cleanup(c, &cleaned.p);
    if (failk > allocs_needed) { guard_leave(); return; }
    memset(vbuf, 0xC3, sizeof(vbuf));
    switch (prior) {
    case 0: memset(&victim, 0, hs); break;
    case 1: memset(&victim, 0xFF, hs); break;
    case 2: memset(&victim, 0xA5, hs); break;
    case 3: memcpy(&victim, &other, hs); break;
    case 4: memcpy(&victim, &cleaned, hs); break;
    default: verif_paint_obj(&victim, hs); break;   /* C11: nothing may be computed from this */
    }
    ol = okind == OK_CTR ? ctr_image(c, &other.c, oimg, sizeof(oimg)) : par_image(c, &other.p, oimg, sizeof(oimg));
    live_other = arena_live();
    /* the failing init */
    g_fail_at = g_alloc_calls + failk;
    g_obj_keep_prior = 1;
    r = okind == OK_CTR ? ctr_init(c, be, &victim.c) : par_init(c, be, &victim.p);
    g_obj_keep_prior = 0;
    g_fail_at = 0;
    if (!VICTIM_CANARIES_OK()) {
        snprintf(sig, sizeof(sig), "%s/failed-init-wrote-outside-object", sb);
        violation(sig, cd, "the failing init modified memory outside the %zu bytes of the caller's object (prior content %s)", hs, PRIOR[prior]);
        memset(vbuf, 0xC3, 64); memset(vbuf + 64 + hs, 0xC3, sizeof(vbuf) - 64 - hs);
    }
    distinct_add_u64(fnv1a(cd, strlen(cd), 16));
    out_digest("init-return-under-allocation-failure", &r, sizeof(r));
    if (r != 0) {
        snprintf(sig, sizeof(sig), "%s/init-reported-success", sb);
        violation(sig, cd, "allocation %d of init failed but init returned %d (prior content %s)", failk, r, PRIOR[prior]);
    }
    if (arena_live() != live_other) {
        snprintf(sig, sizeof(sig), "%s/leak-on-failure", sb);
        violation(sig, cd, "failed init left %d live block(s) behind", arena_live() - live_other);
    }
    for (i = 0; i < nseq; ++i) {
        int rr = f_call(okind, c, &victim, seq[i]);
        out_digest("return-of-call-after-failed-init", &rr, sizeof(rr));
        if (rr != 0) {
            snprintf(sig, sizeof(sig), "%s/failed-object-accepted/%s", sb, FNAME[seq[i]]);
            violation(sig, cd, "%s on the object of a failed init returned %d (prior content %s)", FNAME[seq[i]], rr, PRIOR[prior]);
        }
        if (!VICTIM_CANARIES_OK()) {
            snprintf(sig, sizeof(sig), "%s/call-after-failed-init-wrote-outside-object/%s", sb, FNAME[seq[i]]);
            violation(sig, cd, "%s on the object of a failed init modified memory outside the object (prior content %s)", FNAME[seq[i]], PRIOR[prior]);
            break;
        }
        if (g_lerr.foreign_free || g_lerr.double_free || g_lerr.interior_free || arena_live() != live_other) {
            snprintf(sig, sizeof(sig), "%s/failed-object-freed-something/%s", sb, FNAME[seq[i]]);
            violation(sig, cd, "%s on the object of a failed init released memory it does not own (foreign=%d double=%d interior=%d live %d->%d, prior content %s)",
                      FNAME[seq[i]], g_lerr.foreign_free, g_lerr.double_free, g_lerr.interior_free, live_other, arena_live(), PRIOR[prior]);
            break;
        }
    }
    /* neighbour intact */
    if (arena_live() == live_other && arena_find(okind == OK_CTR ? other.c.raw.ctx : other.p.raw.ctx) &&
        arena_find(okind == OK_CTR ? other.c.raw.ctx : other.p.raw.ctx)->live) {
        ol2 = okind == OK_CTR ? ctr_image(c, &other.c, oimg2, sizeof(oimg2)) : par_image(c, &other.p, oimg2, sizeof(oimg2));
        if (ol != ol2 || memcmp(oimg, oimg2, ol) != 0) {
            snprintf(sig, sizeof(sig), "%s/neighbour-modified", sb);
            violation(sig, cd, "another live object's context changed (prior content %s)", PRIOR[prior]);
        }
        /* the object must be reusable: init / use / cleanup */
        r = okind == OK_CTR ? ctr_init(c, be, &victim.c) : par_init(c, be, &victim.p);
        if (!r || f_call(okind, c, &victim, F_KEY) != 1 || f_call(okind, c, &victim, F_ENC) != 1) {
            snprintf(sig, sizeof(sig), "%s/not-reusable", sb);
            violation(sig, cd, "object could not be initialised and used after the failed init");
        }
        f_call(okind, c, &victim, F_CLEANUP);
        if (arena_live() != live_other) {
            snprintf(sig, sizeof(sig), "%s/leak-after-reuse", sb);
            violation(sig, cd, "live blocks %d after re-init/cleanup, expected %d", arena_live(), live_other);
        }
    }
    guard_leave();
#undef victim
#undef VICTIM_CANARIES_OK
}

static void run_c16(void)
{
    int ok, c, be, prior, k, s0, s1, s2, job = 0;
    if (g_opts.replay) {
        int a[8];
        if (sscanf(g_opts.replay, "c16 %d %d %d %d %d %d %d %d", &a[0], &a[1], &a[2], &a[3], &a[4], &a[5], &a[6], &a[7]) != 8) engine_error("bad replay");
        c16_case(a[0], (Cipher)a[1], a[2], a[3], a[4], a[5], a[6], a[7]);
        return;
    }
    for (ok = 0; ok < 2; ++ok) for (c = 0; c < 3; ++c) for (be = 0; be <= cipher_max_be((Cipher)c); ++be, ++job) {
        if (job % g_opts.nshards != g_opts.shard) continue;
        for (prior = 0; prior < 6; ++prior) for (k = 1; k <= 2; ++k)
            for (s0 = -1; s0 < F_NOPS; ++s0) for (s1 = -1; s1 < F_NOPS; ++s1) for (s2 = -1; s2 < F_NOPS; ++s2) {
                if (s0 < 0 && (s1 >= 0 || s2 >= 0)) continue;
                if (s1 < 0 && s2 >= 0) continue;
                c16_case(ok, (Cipher)c, be, prior, k, s0, s1, s2);
            }
        if (job < 4) sample_add("%s %s on %s: allocation k of init fails, caller object previously {zeros,0xFF,0xA5,copy of a live object,copy of a cleaned-up object}, "
                                "then every sequence of up to 3 of {cleanup,set_key,set_counter,use,swap_modes,cleanup,set_key(other variant),use(decrypt entry point / longer request)}, then init/use/cleanup", ok ? "parallel" : "ctr", cipher_name((Cipher)c), be_name(be));
    }
}

/* Twenty lives of one handle (the search above reaches two or three): init, key (size class changing from life to
 * life), both data entry points, cleanup - after every cleanup nothing may be live, every block must have been
 * released exactly once and wiped, and no allocator misuse may have been recorded. */
static void many_lives(int okind, Cipher c, int be)
{
    union { CtrObj c; ParObj p; } h; static uint8_t in[512], out[512], tw[512];
    char cd[64], sig[120]; int life, bs = cipher_bs(c);
    snprintf(cd, sizeof(cd), "c15lives %d %d %d", okind, (int)c, be);
    snprintf(sig, sizeof(sig), "C15/%s/%s/%s/many-lives", okind == OK_CTR ? "ctr" : "parallel", cipher_name(c), be_name(be));
    if (guard_enter(sig, cd)) return;
    arena_reset(); memset(&h, 0, sizeof(h)); lcg_fill(in, sizeof(in), 9); lcg_fill(tw, sizeof(tw), 10);
    for (life = 0; life < 20; ++life) {
        int r, i, frees = 0; unsigned klen = c == CK_MANTIS ? 16 : (unsigned)bs * (unsigned)(1 + life % 3);
        ++g_cnt.evaluations;
        r = okind == OK_CTR ? ctr_init(c, be, &h.c) : par_init(c, be, &h.p);
        if (!r) { violation(sig, cd, "life %d: init returned 0", life + 1); break; }
        if (okind == OK_CTR) { r = ctr_set_key(c, &h.c, KEYS[life & 1], klen, 5 + (unsigned)(life % 4)); r &= ctr_encrypt(c, &h.c, out, in, 70 + (size_t)life); }
        else { r = par_set_key(c, &h.p, KEYS[life & 1], klen, 5 + (unsigned)(life % 4), MANTIS_ENCRYPT); r &= par_crypt(c, &h.p, out, in, tw, (size_t)bs * 9, 0);
               r &= par_crypt(c, &h.p, out, in, tw, (size_t)bs * 9, c == CK_MANTIS ? 0 : 1); }
        if (r != 1) { violation(sig, cd, "life %d: a valid call returned 0", life + 1); break; }
        if (okind == OK_CTR) ctr_cleanup(c, &h.c); else par_cleanup(c, &h.p);
        for (i = 0; i < arena_count(); ++i) { AllocRec *rc = arena_rec(i); frees += rc->freed; if (rc->freed && rc->wiped != 1) { violation(sig, cd, "life %d: a block of %zu bytes reached free() with a non-zero byte at offset %d", life + 1, rc->size, rc->first_dirty); life = 99; break; } }
        if (life >= 99) break;
        if (arena_live() != 0 || frees != arena_count() || g_lerr.foreign_free || g_lerr.double_free || g_lerr.interior_free || !arena_check_canaries()) {
            violation(sig, cd, "life %d: after cleanup %d blocks are live, %d of %d released, foreign/double/interior frees %d/%d/%d", life + 1, arena_live(), frees, arena_count(),
                      g_lerr.foreign_free, g_lerr.double_free, g_lerr.interior_free); break; }
        r = okind == OK_CTR ? ctr_encrypt(c, &h.c, out, in, 1) : par_crypt(c, &h.p, out, in, tw, (size_t)bs, 0);
        if (r != 0) { violation(sig, cd, "life %d: a data call after cleanup returned %d", life + 1, r); break; }
    }
    guard_leave();
}

/* Four objects of one kind alive at once (the search above has one or two), keyed and used, then cleaned up in turn:
 * every block must reach free() wiped, and what is still allocated afterwards must hold nothing. */
static void several_objects(int okind, Cipher c, int be)
{
    union { CtrObj c; ParObj p; } h[4]; static uint8_t in[512], out[512], tw[512];
    char cd[64], sig[120]; int i, k, bs = cipher_bs(c), r = 1;
    snprintf(cd, sizeof(cd), "c17several %d %d %d", okind, (int)c, be);
    snprintf(sig, sizeof(sig), "C17/%s/%s/%s/several-objects", okind == OK_CTR ? "ctr" : "parallel", cipher_name(c), be_name(be));
    if (guard_enter(sig, cd)) return;
    arena_reset(); memset(h, 0, sizeof(h)); lcg_fill(in, sizeof(in), 19); lcg_fill(tw, sizeof(tw), 20);
    for (i = 0; i < 4; ++i) {
        unsigned klen = c == CK_MANTIS ? 16 : (unsigned)bs * (unsigned)(1 + i % 3);
        if (okind == OK_CTR) { r &= ctr_init(c, be, &h[i].c); r &= ctr_set_key(c, &h[i].c, KEYS[i & 1], klen, 5 + (unsigned)i); r &= ctr_encrypt(c, &h[i].c, out, in, 75 + (size_t)i); }
        else { r &= par_init(c, be, &h[i].p); r &= par_set_key(c, &h[i].p, KEYS[i & 1], klen, 5 + (unsigned)i, MANTIS_ENCRYPT); r &= par_crypt(c, &h[i].p, out, in, tw, (size_t)bs * 9, 0); }
    }
    if (r != 1) engine_error("several_objects: a valid call failed");
    for (i = 0; i < 4; ++i) {
        ++g_cnt.evaluations;
        if (okind == OK_CTR) ctr_cleanup(c, &h[i].c); else par_cleanup(c, &h[i].p);
        for (k = 0; k < arena_count(); ++k) {
            AllocRec *rc = arena_rec(k);
            if (rc->freed && rc->wiped != 1) { violation(sig, cd, "cleanup of object %d of 4: a block of %zu bytes reached free() with a non-zero byte at offset %d", i + 1, rc->size, rc->first_dirty); guard_leave(); return; }
        }
    }
    for (k = 0; k < arena_count(); ++k) {
        AllocRec *rc = arena_rec(k); size_t q; int nz = 0;
        if (!rc->live) continue;
        for (q = 0; q < rc->size; ++q) nz += rc->ptr[q] != 0;
        if (nz > 8) { violation(sig, cd, "after the cleanup of all four objects a block of %zu bytes is still allocated and holds %d non-zero bytes", rc->size, nz); break; }
    }
    guard_leave();
}

static void body(void)
{
    int i, ok, c, be, job = 0, cut = 0, mode;
    lcg_fill(KEYS[0], 48, 4242 + (uint32_t)g_opts.seed);
    for (i = 0; i < 48; ++i) KEYS[1][i] = (uint8_t)(0xFF - 5 * i);
    if (!strcmp(g_opts.sub, "c16")) { run_c16(); return; }
    mode = !strcmp(g_opts.sub, "c17") ? 17 : 15;
    if (g_opts.replay) {
        char nm[96]; const char *colon = strrchr(g_opts.replay, ':'); const MCKind *kp = &KIND;
        { int a_, b_, c_; if (sscanf(g_opts.replay, "c15lives %d %d %d", &a_, &b_, &c_) == 3) { many_lives(a_, (Cipher)b_, c_); return; }
          if (sscanf(g_opts.replay, "c17several %d %d %d", &a_, &b_, &c_) == 3) { several_objects(a_, (Cipher)b_, c_); return; } }
        if (!colon || (size_t)(colon - g_opts.replay) >= sizeof(nm)) engine_error("bad replay");
        memcpy(nm, g_opts.replay, (size_t)(colon - g_opts.replay)); nm[colon - g_opts.replay] = 0;
        if (!setup_kind(nm)) engine_error("bad replay kind");
        mc_replay(&kp, 1, g_opts.replay);
        return;
    }
    for (ok = 0; ok < 2; ++ok) for (c = 0; c < 3; ++c) for (be = 0; be <= cipher_max_be((Cipher)c); ++be, ++job) {
        char nm[64]; int skew;
        if (job % g_opts.nshards != g_opts.shard) continue;
        for (skew = 0; skew < 2; ++skew) {      /* both placements of the context block modulo 32 */
            snprintf(nm, sizeof(nm), "life%d-%d-%d-%d-s%d", mode, ok, c, be, skew);
            setup_kind(nm);
            if (!mc_explore(&KIND)) ++cut;
        }
        if (job < 4) sample_add("%s: %s %s on %s, alphabet of %d operations over %s, depth <= %d", nm, okname(), cipher_name(g_c), be_name(g_be), l_nops,
                                mode == 17 ? "one object" : "two objects", KIND.max_depth);
    }
    for (ok = 0; ok < 2; ++ok) for (c = 0; c < 3; ++c) for (be = 0; be <= cipher_max_be((Cipher)c); ++be, ++job) {
        if (job % g_opts.nshards != g_opts.shard) continue;
        if (mode == 15) many_lives(ok ? OK_PAR : OK_CTR, (Cipher)c, be); else several_objects(ok ? OK_PAR : OK_CTR, (Cipher)c, be);
    }
    note_num("kinds_cut_by_depth_cap", cut);
    distinct_add_u64(1); distinct_add_u64(2);
}

int main(int argc, char **argv)
{
    parse_opts(argc, argv);
    g_obj_args_copy = 1;    /* every key, tweak and counter buffer of this harness is at least as long as the length passed with it */
    run_prelude();
    if (!g_opts.sub) engine_error("--sub required");
    if (g_prelude_crashed) {   /* init / key / use / cleanup of CTR and parallel objects, all valid, on zeroed handles: a life-cycle matter */
        char sg[64]; snprintf(sg, sizeof(sg), "C%s/valid-call-sequence-died", !strcmp(g_opts.sub, "c17") ? "17" : (!strcmp(g_opts.sub, "c16") ? "16" : "15"));
        violation(sg, "", "a process making only valid calls (init, key set-up, data, cleanup of one CTR and one parallel object per cipher, prelude %d of harness/prelude.c) died before reaching the end", g_prelude_used);
    }
    return mc_guarded_main(body);
}
