/* Reference SKINNY-64/128 (plain and tweakable), written from the specification. */
#include "ref.h"
#include <string.h>

static uint8_t S8[256], S8I[256], S4[16], S4I[16];
static int tables_ready;

/* Published 4-bit table and first row of the published 8-bit table; used only to
 * cross-check the tables generated from the bit-level definitions. */
static const uint8_t S4_PUBLISHED[16] =
    {0xc,0x6,0x9,0x0,0x1,0xa,0x2,0xb,0x3,0x8,0x5,0xd,0x4,0xe,0x7,0xf};
static const uint8_t S8_ROW0[16] =
    {0x65,0x4c,0x6a,0x42,0x4b,0x63,0x43,0x6b,0x55,0x75,0x5a,0x7a,0x53,0x73,0x5b,0x7b};

static const uint8_t PT[16] = {9,15,8,13,10,14,12,11,0,1,2,3,4,5,6,7};

static int bit(unsigned x, int i) { return (x >> i) & 1; }

static int build_tables(void)
{
    unsigned x, i;
    for (x = 0; x < 256; ++x) {
        unsigned v = x;
        for (i = 0; i < 4; ++i) {
            /* x4 ^= NOR(x7,x6); x0 ^= NOR(x3,x2) */
            v ^= (unsigned)(!(bit(v,7) | bit(v,6))) << 4;
            v ^= (unsigned)(!(bit(v,3) | bit(v,2)));
            if (i < 3) {
                /* (x7..x0) -> (x2,x1,x7,x6,x4,x0,x3,x5) */
                v = (bit(v,2) << 7) | (bit(v,1) << 6) | (bit(v,7) << 5) |
                    (bit(v,6) << 4) | (bit(v,4) << 3) | (bit(v,0) << 2) |
                    (bit(v,3) << 1) | bit(v,5);
            } else {
                /* swap x1 and x2 */
                v = (v & 0xF9) | (bit(v,1) << 2) | (bit(v,2) << 1);
            }
        }
        S8[x] = (uint8_t)v;
    }
    for (x = 0; x < 256; ++x)
        S8I[S8[x]] = (uint8_t)x;
    for (x = 0; x < 16; ++x) {
        unsigned v = x;
        for (i = 0; i < 4; ++i) {
            v ^= (unsigned)(!(bit(v,3) | bit(v,2)));
            if (i < 3)
                v = ((v << 1) | (v >> 3)) & 0xF;
        }
        S4[x] = (uint8_t)v;
    }
    for (x = 0; x < 16; ++x)
        S4I[S4[x]] = (uint8_t)x;
    tables_ready = 1;
    if (memcmp(S4, S4_PUBLISHED, 16) != 0)
        return -1;
    if (memcmp(S8, S8_ROW0, 16) != 0)
        return -1;
    /* both must be permutations */
    for (x = 0; x < 256; ++x)
        if (S8[S8I[x]] != x) return -1;
    for (x = 0; x < 16; ++x)
        if (S4[S4I[x]] != x) return -1;
    return 0;
}

int ref_skinny_tables_ok(void)
{
    return build_tables();
}

int ref_skinny_rounds(int bs, int tklen)
{
    int z = tklen / bs;
    if (bs == 8)
        return z == 1 ? 32 : (z == 2 ? 36 : 40);
    return z == 1 ? 40 : (z == 2 ? 48 : 56);
}

/* cells <-> bytes */
static void unpack(int bs, const uint8_t *in, uint8_t c[16])
{
    int i;
    if (bs == 16) {
        for (i = 0; i < 16; ++i) c[i] = in[i];
    } else {
        for (i = 0; i < 8; ++i) {
            c[2*i] = in[i] >> 4;
            c[2*i+1] = in[i] & 0xF;
        }
    }
}

static void pack(int bs, const uint8_t c[16], uint8_t *out)
{
    int i;
    if (bs == 16) {
        for (i = 0; i < 16; ++i) out[i] = c[i];
    } else {
        for (i = 0; i < 8; ++i)
            out[i] = (uint8_t)((c[2*i] << 4) | (c[2*i+1] & 0xF));
    }
}

static uint8_t lfsr2(int bs, uint8_t x)
{
    if (bs == 16) /* (x6,x5,x4,x3,x2,x1,x0,x7^x5) */
        return (uint8_t)((x << 1) | (bit(x,7) ^ bit(x,5)));
    return (uint8_t)(((x << 1) & 0xF) | (bit(x,3) ^ bit(x,2)));
}

static uint8_t lfsr3(int bs, uint8_t x)
{
    if (bs == 16) /* (x0^x6,x7,x6,...,x1) */
        return (uint8_t)((x >> 1) | ((bit(x,0) ^ bit(x,6)) << 7));
    return (uint8_t)((x >> 1) | ((bit(x,0) ^ bit(x,3)) << 3));
}

/* Expands the tweakey into per-round arrays of the 8 cells of the first two
 * rows of TK1^TK2^TK3, and the round constants. */
typedef struct {
    int rounds;
    uint8_t rtk[64][8];
    uint8_t rc[64];
} Sched;

static void expand(int bs, const uint8_t *tk, int tklen, Sched *s)
{
    uint8_t t[3][16], tmp[16];
    int z = tklen / bs, r, i, j;
    unsigned rc = 0;
    if (!tables_ready) build_tables();
    s->rounds = ref_skinny_rounds(bs, tklen);
    for (j = 0; j < z; ++j)
        unpack(bs, tk + j * bs, t[j]);
    for (r = 0; r < s->rounds; ++r) {
        for (i = 0; i < 8; ++i) {
            uint8_t v = 0;
            for (j = 0; j < z; ++j) v ^= t[j][i];
            s->rtk[r][i] = v;
        }
        rc = ((rc << 1) & 0x3F) | (bit(rc,5) ^ bit(rc,4) ^ 1);
        s->rc[r] = (uint8_t)rc;
        for (j = 0; j < z; ++j) {
            for (i = 0; i < 16; ++i) tmp[i] = t[j][PT[i]];
            memcpy(t[j], tmp, 16);
            if (j == 1)
                for (i = 0; i < 8; ++i) t[j][i] = lfsr2(bs, t[j][i]);
            if (j == 2)
                for (i = 0; i < 8; ++i) t[j][i] = lfsr3(bs, t[j][i]);
        }
    }
}

static void mix_columns(uint8_t c[16])
{
    int j;
    for (j = 0; j < 4; ++j) {
        uint8_t a = c[j], b = c[4+j], d = c[8+j], e = c[12+j];
        /* M = [1011; 1000; 0110; 1010] */
        c[j]    = a ^ d ^ e;
        c[4+j]  = a;
        c[8+j]  = b ^ d;
        c[12+j] = a ^ d;
    }
}

static void inv_mix_columns(uint8_t c[16])
{
    int j;
    for (j = 0; j < 4; ++j) {
        uint8_t a = c[j], b = c[4+j], d = c[8+j], e = c[12+j];
        /* inverse: [0100; 0111; 0101; 1001] */
        c[j]    = b;
        c[4+j]  = b ^ d ^ e;
        c[8+j]  = b ^ e;
        c[12+j] = a ^ e;
    }
}

static void shift_rows(uint8_t c[16], int inverse)
{
    uint8_t t[16];
    int r, j;
    for (r = 0; r < 4; ++r)
        for (j = 0; j < 4; ++j) {
            if (!inverse) t[4*r + ((j + r) & 3)] = c[4*r + j];
            else          t[4*r + j] = c[4*r + ((j + r) & 3)];
        }
    memcpy(c, t, 16);
}

void ref_skinny_encrypt(int bs, const uint8_t *tk, int tklen, int tweaked,
                        const uint8_t *in, uint8_t *out)
{
    Sched s;
    uint8_t c[16];
    int r, i;
    expand(bs, tk, tklen, &s);
    unpack(bs, in, c);
    for (r = 0; r < s.rounds; ++r) {
        for (i = 0; i < 16; ++i) c[i] = (bs == 16) ? S8[c[i]] : S4[c[i]];
        c[0] ^= s.rc[r] & 0xF;
        c[4] ^= s.rc[r] >> 4;
        c[8] ^= 0x2;
        for (i = 0; i < 8; ++i) c[i] ^= s.rtk[r][i];
        if (tweaked) c[2] ^= 0x2;
        shift_rows(c, 0);
        mix_columns(c);
    }
    pack(bs, c, out);
}

void ref_skinny_decrypt(int bs, const uint8_t *tk, int tklen, int tweaked,
                        const uint8_t *in, uint8_t *out)
{
    Sched s;
    uint8_t c[16];
    int r, i;
    expand(bs, tk, tklen, &s);
    unpack(bs, in, c);
    for (r = s.rounds - 1; r >= 0; --r) {
        inv_mix_columns(c);
        shift_rows(c, 1);
        for (i = 0; i < 8; ++i) c[i] ^= s.rtk[r][i];
        if (tweaked) c[2] ^= 0x2;
        c[0] ^= s.rc[r] & 0xF;
        c[4] ^= s.rc[r] >> 4;
        c[8] ^= 0x2;
        for (i = 0; i < 16; ++i) c[i] = (bs == 16) ? S8I[c[i]] : S4I[c[i]];
    }
    pack(bs, c, out);
}

void ref_skinny_key_encrypt(int bs, const uint8_t *key, int klen,
                            const uint8_t *in, uint8_t *out)
{
    ref_skinny_encrypt(bs, key, klen, 0, in, out);
}

void ref_skinny_key_decrypt(int bs, const uint8_t *key, int klen,
                            const uint8_t *in, uint8_t *out)
{
    ref_skinny_decrypt(bs, key, klen, 0, in, out);
}

void ref_skinny_tweak_encrypt(int bs, const uint8_t *key, int klen,
                              const uint8_t *tweak,
                              const uint8_t *in, uint8_t *out)
{
    uint8_t tk[48];
    memcpy(tk, tweak, (size_t)bs);
    memcpy(tk + bs, key, (size_t)klen);
    ref_skinny_encrypt(bs, tk, bs + klen, 1, in, out);
}

void ref_skinny_tweak_decrypt(int bs, const uint8_t *key, int klen,
                              const uint8_t *tweak,
                              const uint8_t *in, uint8_t *out)
{
    uint8_t tk[48];
    memcpy(tk, tweak, (size_t)bs);
    memcpy(tk + bs, key, (size_t)klen);
    ref_skinny_decrypt(bs, tk, bs + klen, 1, in, out);
}

void ref_ctr_add(uint8_t *ctr, int bs, uint64_t add)
{
    int i;
    for (i = bs - 1; i >= 0; --i) {
        uint64_t v = (uint64_t)ctr[i] + (add & 0xFF);
        ctr[i] = (uint8_t)v;
        add = (add >> 8) + (v >> 8);
    }
}
