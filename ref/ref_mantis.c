/* Reference MANTIS-r, written from the specification (eprint 2016/660, sect. 6). */
#include "ref.h"
#include <string.h>

static const uint8_t SB[16] = /* Midori Sb0 (an involution) */
    {0xc,0xa,0xd,0x3,0xe,0xb,0xf,0x7,0x8,0x9,0x1,0x5,0x0,0x2,0x4,0x6};
static const uint8_t P[16] = {0,11,6,13,10,1,12,7,5,14,3,8,15,4,9,2};
static const uint8_t H[16] = {6,5,14,15,0,1,2,3,7,12,13,4,8,9,10,11};
static const uint64_t RC[8] = {
    0x13198A2E03707344ULL, 0xA4093822299F31D0ULL, 0x082EFA98EC4E6C89ULL,
    0x452821E638D01377ULL, 0xBE5466CF34E90C6CULL, 0xC0AC29B7C97C50DDULL,
    0x3F84D5B5B5470917ULL, 0x9216D5D98979FB1BULL
};
static const uint64_t ALPHA = 0x243F6A8885A308D3ULL;

static uint64_t load64(const uint8_t *p)
{
    uint64_t v = 0; int i;
    for (i = 0; i < 8; ++i) v = (v << 8) | p[i];
    return v;
}

static void to_cells(uint64_t v, uint8_t c[16])
{
    int i;
    for (i = 0; i < 16; ++i) c[i] = (uint8_t)((v >> (60 - 4*i)) & 0xF);
}

static uint64_t from_cells(const uint8_t c[16])
{
    uint64_t v = 0; int i;
    for (i = 0; i < 16; ++i) v = (v << 4) | (c[i] & 0xF);
    return v;
}

static void xor_cells(uint8_t c[16], uint64_t v)
{
    uint8_t t[16]; int i;
    to_cells(v, t);
    for (i = 0; i < 16; ++i) c[i] ^= t[i];
}

static void sub_cells(uint8_t c[16])
{
    int i;
    for (i = 0; i < 16; ++i) c[i] = SB[c[i]];
}

static void permute(uint8_t c[16], const uint8_t *perm, int inverse)
{
    uint8_t t[16]; int i;
    for (i = 0; i < 16; ++i) {
        if (!inverse) t[i] = c[perm[i]];
        else          t[perm[i]] = c[i];
    }
    memcpy(c, t, 16);
}

static void mix(uint8_t c[16])
{
    int j;
    for (j = 0; j < 4; ++j) {
        uint8_t a = c[j], b = c[4+j], d = c[8+j], e = c[12+j];
        c[j]    = b ^ d ^ e;
        c[4+j]  = a ^ d ^ e;
        c[8+j]  = a ^ b ^ e;
        c[12+j] = a ^ b ^ d;
    }
}

static uint64_t h_iter(uint64_t t, int n)
{
    uint8_t c[16];
    to_cells(t, c);
    while (n-- > 0) permute(c, H, 0);
    return from_cells(c);
}

static uint64_t k0prime(uint64_t k0)
{
    return ((k0 >> 1) | (k0 << 63)) ^ (k0 >> 63);
}

void ref_mantis_encrypt(const uint8_t key[16], const uint8_t tweak[8],
                        int rounds, const uint8_t in[8], uint8_t out[8])
{
    uint64_t k0 = load64(key), k1 = load64(key + 8), t = load64(tweak);
    uint8_t c[16];
    uint64_t v;
    int i;
    to_cells(load64(in), c);
    xor_cells(c, k0 ^ k1 ^ t);
    for (i = 1; i <= rounds; ++i) {
        sub_cells(c);
        xor_cells(c, RC[i-1]);
        xor_cells(c, k1 ^ h_iter(t, i));
        permute(c, P, 0);
        mix(c);
    }
    sub_cells(c);
    mix(c);
    sub_cells(c);
    for (i = rounds; i >= 1; --i) {
        mix(c);
        permute(c, P, 1);
        xor_cells(c, k1 ^ ALPHA ^ h_iter(t, i));
        xor_cells(c, RC[i-1]);
        sub_cells(c);
    }
    xor_cells(c, k0prime(k0) ^ k1 ^ ALPHA ^ t);
    v = from_cells(c);
    for (i = 0; i < 8; ++i) out[i] = (uint8_t)(v >> (56 - 8*i));
}

/* The literal inverse of the above, step by step in reverse order (the S-box
 * and MixColumns are involutions). */
void ref_mantis_decrypt(const uint8_t key[16], const uint8_t tweak[8],
                        int rounds, const uint8_t in[8], uint8_t out[8])
{
    uint64_t k0 = load64(key), k1 = load64(key + 8), t = load64(tweak);
    uint8_t c[16];
    uint64_t v;
    int i;
    to_cells(load64(in), c);
    xor_cells(c, k0prime(k0) ^ k1 ^ ALPHA ^ t);
    for (i = 1; i <= rounds; ++i) {
        sub_cells(c);
        xor_cells(c, RC[i-1]);
        xor_cells(c, k1 ^ ALPHA ^ h_iter(t, i));
        permute(c, P, 0);
        mix(c);
    }
    sub_cells(c);
    mix(c);
    sub_cells(c);
    for (i = rounds; i >= 1; --i) {
        mix(c);
        permute(c, P, 1);
        xor_cells(c, k1 ^ h_iter(t, i));
        xor_cells(c, RC[i-1]);
        sub_cells(c);
    }
    xor_cells(c, k0 ^ k1 ^ t);
    v = from_cells(c);
    for (i = 0; i < 8; ++i) out[i] = (uint8_t)(v >> (56 - 8*i));
}
