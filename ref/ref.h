/*
 * Reference models for SKINNY, tweakable SKINNY, MANTIS and CTR mode.
 *
 * Written from the SKINNY (CRYPTO 2016, eprint 2016/660) and MANTIS papers:
 * cell arrays, table S-boxes generated from the bit-level definitions, literal
 * loops.  Deliberately boring and independent of the code under test.  The
 * models are bound to the published vectors by ref_selftest().
 */
#ifndef VERIF_REF_H
#define VERIF_REF_H

#include <stdint.h>
#include <stddef.h>

/* SKINNY.  bs = block size in bytes (8 or 16).  tk = tweakey of tklen bytes
 * (bs, 2*bs or 3*bs), TK1 first.  tweaked != 0 adds the tweak-domain constant
 * 0x2 to cell (row 0, column 2) in every round. */
int ref_skinny_rounds(int bs, int tklen);
void ref_skinny_encrypt(int bs, const uint8_t *tk, int tklen, int tweaked,
                        const uint8_t *in, uint8_t *out);
void ref_skinny_decrypt(int bs, const uint8_t *tk, int tklen, int tweaked,
                        const uint8_t *in, uint8_t *out);

/* Plain-key convenience: key of klen bytes (primary size). */
void ref_skinny_key_encrypt(int bs, const uint8_t *key, int klen,
                            const uint8_t *in, uint8_t *out);
void ref_skinny_key_decrypt(int bs, const uint8_t *key, int klen,
                            const uint8_t *in, uint8_t *out);
/* Tweakable: TK1 = tweak (bs bytes), TK2/TK3 = key (bs or 2*bs bytes) */
void ref_skinny_tweak_encrypt(int bs, const uint8_t *key, int klen,
                              const uint8_t *tweak,
                              const uint8_t *in, uint8_t *out);
void ref_skinny_tweak_decrypt(int bs, const uint8_t *key, int klen,
                              const uint8_t *tweak,
                              const uint8_t *in, uint8_t *out);

/* MANTIS-r encryption / decryption (16-byte key, 8-byte tweak and block) */
void ref_mantis_encrypt(const uint8_t key[16], const uint8_t tweak[8],
                        int rounds, const uint8_t in[8], uint8_t out[8]);
void ref_mantis_decrypt(const uint8_t key[16], const uint8_t tweak[8],
                        int rounds, const uint8_t in[8], uint8_t out[8]);

/* Big-endian addition of a small value to a counter block */
void ref_ctr_add(uint8_t *ctr, int bs, uint64_t add);

/* Replays the published vectors through the models; returns 0 when all agree */
int ref_selftest(void);

#endif
