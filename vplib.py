"""Shared driver code for the skinny-c verification checks.

Every check: stage /repo's working tree into a scratch directory outside /repo and
/verif, build the library with the repository's own Makefile (hooks enabled), build
the harness against it, run the harness (sharded over the cores), merge the result
files, confirm every violation by a stand-alone replay, apply the known-findings
file, write the evidence file, print the verdict lines.
"""
import atexit
import concurrent.futures as cf
import hashlib
import json
import os
import re
import shutil
import signal
import subprocess
import sys
import tempfile
import time

VERIF = os.path.dirname(os.path.abspath(__file__))
GUARD = "SKINNY_C_VERIF"
NCPU = min(16, os.cpu_count() or 1)

EXIT_HELD, EXIT_VIOLATION, EXIT_ENGINE = 0, 1, 3


def repo_dir():
    return os.environ.get("VERIF_REPO", "/repo")


def evidence_dir():
    """Evidence under /verif/evidence is only ever written by runs against /repo itself;
    runs against another tree (mutation demonstrations) write to a scratch location."""
    if os.path.realpath(repo_dir()) == "/repo":
        return os.path.join(VERIF, "evidence")
    return os.environ.get("VERIF_EVIDENCE_DIR", os.path.join(tempfile.gettempdir(), "vp-evidence-alt"))


class EngineError(Exception):
    pass


# ---------------------------------------------------------------- scratch

_scratch_dirs = []


def _cleanup():
    for d in _scratch_dirs:
        shutil.rmtree(d, ignore_errors=True)


def _sig_cleanup(signum, frame):
    _cleanup()
    os._exit(128 + signum)


atexit.register(_cleanup)
for _s in (signal.SIGTERM, signal.SIGINT, signal.SIGHUP):
    signal.signal(_s, _sig_cleanup)


def scratch():
    base = os.environ.get("VERIF_TMP", tempfile.gettempdir())
    d = tempfile.mkdtemp(prefix="vpchk-", dir=base)
    _scratch_dirs.append(d)
    return d


def sh(cmd, cwd=None, env=None, check=True, timeout=None, capture=True):
    p = subprocess.run(cmd, cwd=cwd, env=env, shell=isinstance(cmd, str),
                       stdout=subprocess.PIPE if capture else None,
                       stderr=subprocess.STDOUT if capture else None,
                       timeout=timeout, text=True)
    if check and p.returncode != 0:
        raise EngineError("command failed (%d): %s\n%s" % (p.returncode, cmd, (p.stdout or "")[-4000:]))
    return p


def stage_repo(dst):
    """Copy the working tree (sources only) of the repository into dst."""
    src = repo_dir().rstrip("/") + "/"
    os.makedirs(dst, exist_ok=True)
    sh(["rsync", "-a", "--exclude", ".git", "--exclude", "*.o", "--exclude", "*.a",
        "--exclude", "_build", "--exclude", "test/test-skinny", "--exclude", "test/test-perf",
        "--exclude", "examples/skinny-ctr", "--exclude", "examples/skinny-ecb",
        "--exclude", "examples/skinny-tweak", src, dst + "/"])
    return dst


class LibBuild:
    """One build configuration of libskinny.a through the repository's src/Makefile."""

    def __init__(self, name="shipped", cc="gcc", common=None, defs=(),
                 vec128=None, vec256=None, maxbe=2, hooks=True, std=None):
        # common / vec128 / vec256 / std left at None are taken from the staged tree's own options.mak at build
        # time, so that what is checked is what the repository's build files produce
        self.name, self.cc, self.common = name, cc, common
        self.defs = list(defs)
        self.vec128, self.vec256, self.maxbe = vec128, vec256, maxbe
        self.hooks, self.std = hooks, std
        self.dir = None

    def describe(self):
        return "%s: CC=%s COMMON_CFLAGS='%s %s' VEC128='%s' VEC256='%s'" % (
            self.name, self.cc, self.common, " ".join(self.all_defs()), self.vec128, self.vec256)

    def all_defs(self):
        d = list(self.defs)
        if self.hooks:
            d.insert(0, "-D" + GUARD)
        return d

    def build(self, stage, jobs=NCPU):
        """Build in <stage>/lib-<name>/ (a copy of src, include, options.mak)."""
        root = os.path.join(stage, "lib-" + self.name)
        os.makedirs(root, exist_ok=True)
        for sub in ("src", "include"):
            shutil.copytree(os.path.join(stage, "tree", sub), os.path.join(root, sub))
        shutil.copy(os.path.join(stage, "tree", "options.mak"), root)
        mk = {}
        for line in open(os.path.join(root, "options.mak")):
            m = re.match(r"^([A-Z0-9_]+)\s*(\+?)[:]?=\s*(.*?)\s*$", line)
            if m:
                mk[m.group(1)] = (mk.get(m.group(1), "") + " " + m.group(3)).strip() if m.group(2) else m.group(3)
        if self.common is None:
            self.common = mk.get("COMMON_CFLAGS", "-O3 -Wall -Wextra")
        if self.vec128 is None:
            self.vec128 = mk.get("VEC128_CFLAGS", "-msse2")
        if self.vec256 is None:
            self.vec256 = mk.get("VEC256_CFLAGS", "-mavx2")
        if self.std is None:
            self.std = mk.get("STDC_CFLAGS", "-std=c99")
        common = " ".join([self.common] + self.all_defs())
        cmd = ["make", "-C", os.path.join(root, "src"), "-j%d" % jobs, "CC=" + self.cc,
               "COMMON_CFLAGS=" + common, "STDC_CFLAGS=" + self.std,
               "VEC128_CFLAGS=" + self.vec128, "VEC256_CFLAGS=" + self.vec256]
        env = dict(os.environ)
        env.pop("CFLAGS", None)
        sh(cmd, env=env)
        self.dir = root
        return self

    @property
    def lib(self):
        return os.path.join(self.dir, "src", "libskinny.a")

    def incflags(self):
        return ["-I" + os.path.join(self.dir, "include"), "-I" + os.path.join(self.dir, "src")]


WRAP_ALLOC = ["calloc", "malloc", "realloc", "free", "posix_memalign", "aligned_alloc", "memalign"]
WRAP_PIN = ["_skinny_has_vec128", "_skinny_has_vec256"]


def build_harness(stage, lib, name, sources, cc="gcc", cflags="-O1 -g -Wall -Wextra -Wno-unused-parameter",
                  wraps=(), extra_ld=(), ref=True, defs=()):
    out = os.path.join(stage, "bin-%s-%s" % (name, lib.name if lib else "nolib"))
    srcs = [os.path.join(VERIF, "harness", s) for s in sources]
    if ref:
        srcs += [os.path.join(VERIF, "ref", s) for s in ("ref_skinny.c", "ref_mantis.c", "ref_selftest.c")]
    cmd = [cc] + cflags.split() + list(defs) + ["-I" + os.path.join(VERIF, "harness"), "-I" + os.path.join(VERIF, "ref")]
    if lib:
        cmd += lib.incflags()
    cmd += srcs
    if lib:
        cmd += [lib.lib]
    if wraps:
        cmd += ["-Wl," + ",".join("--wrap=" + w for w in wraps)]
    cmd += list(extra_ld) + ["-o", out]
    sh(cmd)
    return out


# ---------------------------------------------------------------- running

def run_harness(binary, args, out, timeout=None, env=None, prefix=()):
    cmd = list(prefix) + [binary] + list(args) + ["--out", out]
    p = subprocess.run(cmd, stdout=subprocess.PIPE, stderr=subprocess.STDOUT, text=True,
                       timeout=timeout, env=env)
    if p.returncode == 77 and "MemorySanitizer" in p.stdout:
        # MemorySanitizer stopped the run at a use of uninitialised memory inside the library
        i = p.stdout.index("MemorySanitizer")
        j = p.stdout.rfind("\n", 0, i) + 1
        return {"label": "", "evaluations": 0, "distinct_nontrivial": 0, "violation_count": 1, "samples": [], "notes": {},
                "violations": [{"sig": "C11/msan-report", "case": "", "detail": p.stdout[j:j + 1800]}], "_stdout": p.stdout[-2000:], "_cmd": cmd}
    if p.returncode not in (EXIT_HELD, EXIT_VIOLATION):
        raise EngineError("harness exit %d: %s\n%s" % (p.returncode, " ".join(cmd), p.stdout[-4000:]))
    with open(out) as f:
        res = json.load(f)
    res["_stdout"] = p.stdout[-2000:]
    res["_cmd"] = cmd
    return res


def run_sharded(binary, args, stage, tag, nshards=NCPU, timeout=None, env=None, prefix=(), only=None):
    """Run the harness nshards times in parallel with --shard i/n; merge results.
    only: run just the first `only` shards (a deterministic part of the enumeration)."""
    outs = []
    with cf.ThreadPoolExecutor(max_workers=min(NCPU, nshards)) as ex:
        futs = []
        for i in range(nshards if only is None else min(only, nshards)):
            out = os.path.join(stage, "res-%s-%d.json" % (tag, i))
            a = list(args) + ["--shard", "%d/%d" % (i, nshards)]
            futs.append(ex.submit(run_harness, binary, a, out, timeout, env, prefix))
        for f in futs:
            outs.append(f.result())
    return outs


def run_parallel(jobs, workers=NCPU):
    """jobs: list of zero-arg callables; returns their results in order."""
    with cf.ThreadPoolExecutor(max_workers=workers) as ex:
        futs = [ex.submit(j) for j in jobs]
        return [f.result() for f in futs]


class Merged:
    def __init__(self):
        self.evaluations = 0
        self.distinct = 0
        self.states = 0
        self.transitions = 0
        self.traces = 0
        self.violation_count = 0
        self.samples = []
        self.notes = {}
        self.violations = []   # dicts: sig, case, detail, replay (spec to re-run)
        self.runs = 0
        self.out_sums = {}     # tag -> [sum mod 2^64, count]

    def add(self, res, replay_spec=None):
        self.runs += 1
        self.evaluations += res.get("evaluations", 0)
        self.distinct += res.get("distinct_nontrivial", 0)
        self.states += res.get("states", 0)
        self.transitions += res.get("transitions", 0)
        self.traces += res.get("traces", 0)
        self.violation_count += res.get("violation_count", 0)
        for s in res.get("samples", []):
            if len(self.samples) < 16 and s not in self.samples:
                self.samples.append(s)
        for t, (hx, n) in res.get("out_sums", {}).items():
            cur = self.out_sums.get(t, [0, 0])
            self.out_sums[t] = [(cur[0] + int(hx, 16)) % (1 << 64), cur[1] + n]
        lab = res.get("label", "")
        for k, v in res.get("notes", {}).items():
            key = k if not lab else "%s[%s]" % (k, lab)
            if key in self.notes and isinstance(v, (int, float)) and isinstance(self.notes[key], (int, float)):
                self.notes[key] += v
            else:
                self.notes[key] = v
        for v in res.get("violations", []):
            v = dict(v)
            v["label"] = lab
            v["replay"] = replay_spec
            self.violations.append(v)


# ---------------------------------------------------------------- findings, verdicts

def load_known():
    p = os.path.join(VERIF, "known-findings.json")
    if not os.path.exists(p):
        return []
    with open(p) as f:
        return json.load(f).get("findings", [])


class Verdict:
    """Collects violations for one property, confirms them, prints the lines."""

    def __init__(self, pid, tier, seed):
        self.pid, self.tier, self.seed = pid, tier, seed
        self.t0 = time.time()
        try:
            os.remove(os.path.join(evidence_dir(), "%s.json" % pid))   # never leave stale evidence behind
        except OSError:
            pass
        self.known = [k for k in load_known() if k.get("property") == pid]
        self.new = []          # confirmed violations not in the known-findings file
        self.known_hit = {}    # finding id -> count
        self.unconfirmed = []

    def classify(self, sig):
        for k in self.known:
            if k.get("status") != "open":
                continue
            if re.fullmatch(k["signature"], sig):
                return k
        return None

    def handle(self, merged, replayer):
        """replayer(violation) -> True when the violation reproduces stand-alone."""
        seen_sig = {}
        for v in merged.violations:
            k = self.classify(v["sig"])
            if k is not None:
                self.known_hit[k["id"]] = self.known_hit.get(k["id"], 0) + 1
                continue
            n = seen_sig.get(v["sig"], 0)
            seen_sig[v["sig"]] = n + 1
            if n >= 2:
                continue
            ok = replayer(v) if replayer else True
            if ok:
                self.new.append(v)
            else:
                self.unconfirmed.append(v)

    def write_replay(self, v):
        os.makedirs(os.path.join(VERIF, "replays"), exist_ok=True)
        body = {"property": self.pid, "signature": v["sig"], "case": v["case"], "detail": v["detail"], "prelude": v.get("prelude", 0),
                "build": v.get("label", ""), "replay": v.get("replay"), "tier": self.tier, "seed": self.seed,
                "repo": repo_dir()}
        h = hashlib.sha1(json.dumps([v["sig"], v["case"], v.get("label", "")]).encode()).hexdigest()[:10]
        path = os.path.join(VERIF, "replays", "%s-%s.json" % (self.pid, h))
        with open(path, "w") as f:
            json.dump(body, f, indent=1)
        return path

    def finish(self, level, coverage, assumptions, exhaustive=True):
        """Write evidence, print lines, return exit code."""
        if self.unconfirmed and not self.new:
            for v in self.unconfirmed[:5]:
                print("ENGINE-ERROR: violation did not reproduce on replay: %s :: %s" % (v["sig"], v["detail"][:300]))
            return EXIT_ENGINE
        for v in self.unconfirmed[:5]:
            # other violations of this run did reproduce and are reported below; these are not counted
            print("NOTE: not reproduced stand-alone, not counted: %s :: %s" % (v["sig"], v["detail"][:200]))
        for k in self.known:
            if k.get("status") == "open" and k["id"] in self.known_hit:
                print("KNOWN-FINDING: property=%s %s" % (self.pid, k["what"]))
        for v in self.new:
            path = self.write_replay(v)
            print("VIOLATION property=%s replay=%s" % (self.pid, path))
            print("  signature: %s" % v["sig"])
            print("  detail: %s" % v["detail"][:600])
        wall = time.time() - self.t0
        coverage = dict(coverage)
        coverage.setdefault("exhaustive", bool(exhaustive))
        ev = {"property_id": self.pid, "tier": self.tier, "seed": self.seed, "level": level,
              "coverage": coverage, "assumptions": assumptions, "wall_s": round(wall, 2),
              "violations": len(self.new),
              "known_findings_hit": sorted(self.known_hit.keys()),
              "repo": repo_dir()}
        os.makedirs(evidence_dir(), exist_ok=True)
        with open(os.path.join(evidence_dir(), "%s.json" % self.pid), "w") as f:
            json.dump(ev, f, indent=1)
        print("%s %s: %s  (%.1fs)" % (self.pid, self.tier, "VIOLATED" if self.new else "held", wall))
        return EXIT_VIOLATION if self.new else EXIT_HELD
